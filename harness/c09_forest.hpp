// C09 — component forest machine: models M0, M1; components c0, c1 (structurally identical while their subtrees are),
// c2 (distinct name). Containers are indexed 0,1 = models, 2+e = component e.
#pragma once
#include "c09_flat.hpp"

namespace c09 {

struct TState
{
    static constexpr int NM = 2, NE = 3, NK = NM + NE;
    std::vector<std::vector<int>> lists; // per container
    std::vector<int> parent;             // per component: container index, -1 none, -2 unknown
    std::vector<char> heldM, heldE, aliveE;
    bool operator==(const TState &o) const { return lists == o.lists && parent == o.parent && heldM == o.heldM && heldE == o.heldE && aliveE == o.aliveE; }
    static std::string kname(int k) { return k < 0 ? "-" : k < NM ? "M" + std::to_string(k) : "c" + std::to_string(k - NM); }
    std::string str() const
    {
        std::string s;
        for (int k = 0; k < NK; ++k) {
            bool alive = k < NM ? heldM[k] : aliveE[k - NM], held = k < NM ? heldM[k] : heldE[k - NM];
            s += std::string(alive ? (held ? "" : "~") : "x") + kname(k) + "[";
            for (size_t i = 0; i < lists[k].size(); ++i) s += (i ? "," : "") + (lists[k][i] >= 0 ? "c" + std::to_string(lists[k][i]) : std::string("?"));
            s += "] ";
        }
        s += "parents(";
        for (int e = 0; e < NE; ++e) s += (e ? "," : "") + (parent[e] == -2 ? std::string("?") : kname(parent[e]));
        return s + ")";
    }
    bool contAlive(int k) const { return k < NM ? heldM[k] : aliveE[k - NM]; }
    bool isAncestor(int anc, int e) const
    { // component anc is a proper ancestor of component e (bounded walk)
        int k = parent[e];
        for (int guard = 0; guard < 8 && k >= NM; ++guard) {
            if (k - NM == anc) return true;
            k = parent[k - NM];
        }
        return false;
    }
    void settle()
    {
        for (int e = 0; e < NE; ++e) aliveE[e] = heldE[e];
        for (int round = 0; round < NE; ++round)
            for (int e = 0; e < NE; ++e)
                if (!aliveE[e] && parent[e] >= 0 && contAlive(parent[e])) aliveE[e] = 1;
        for (int k = 0; k < NK; ++k)
            if (!contAlive(k)) { for (int e : lists[k]) if (e >= 0) parent[e] = -1; lists[k].clear(); }
        for (int e = 0; e < NE; ++e) if (!aliveE[e]) parent[e] = -1;
    }
    static const char *nameClass(int e) { return e < 2 ? "c" : "d"; }
    bool eq(int a, int b, int depth = 0) const
    { // structural equality: same name, children equal as multisets
        if (a == b) return true;
        if (std::string(nameClass(a)) != nameClass(b)) return false;
        const auto &la = lists[NM + a], &lb = lists[NM + b];
        if (la.size() != lb.size()) return false;
        if (depth > 4) return false;
        std::vector<char> used(lb.size(), 0);
        for (int x : la) {
            bool f = false;
            for (size_t j = 0; j < lb.size() && !f; ++j) if (!used[j] && x >= 0 && lb[j] >= 0 && eq(x, lb[j], depth + 1)) { used[j] = 1; f = true; }
            if (!f) return false;
        }
        return true;
    }
    void scope(int k, bool se, std::vector<int> &out, int depth = 0) const
    {
        for (int e : lists[k]) if (e >= 0) out.push_back(e);
        if (se && depth < 6) for (int e : lists[k]) if (e >= 0) scope(NM + e, true, out, depth + 1);
    }
};
struct TAllowed
{
    TState post;
    std::string ret;
};

inline void forestInvariants(const TState &s, std::vector<Viol> &out)
{
    const std::string machine = "forest";
    std::map<int, int> listedBy;
    for (int k = 0; k < TState::NK; ++k) {
        std::set<int> here;
        for (int v : s.lists[k]) {
            if (v < 0) { out.push_back({machine + ":invariant:container-lists-unknown-object", {{"state", s.str()}}}); continue; }
            if (!here.insert(v).second) out.push_back({machine + ":invariant:entity-listed-twice", {{"state", s.str()}}});
            if (listedBy.count(v) && listedBy[v] != k) out.push_back({machine + ":invariant:entity-listed-by-two-containers", {{"state", s.str()}}});
            listedBy[v] = k;
            if (s.parent[v] != k) out.push_back({machine + ":invariant:listed-child-reports-other-parent", {{"state", s.str()}}});
        }
    }
    // acyclic: by parent chain and by containment
    for (int e = 0; e < TState::NE; ++e) {
        int k = s.parent[e], steps = 0;
        while (k >= TState::NM && steps < 8) { k = s.parent[k - TState::NM]; ++steps; }
        if (steps >= 8) { out.push_back({machine + ":invariant:hierarchy-cyclic", {{"state", s.str()}, {"via", "parent chain"}}}); break; }
    }
    for (int e = 0; e < TState::NE; ++e) {
        std::vector<int> sc;
        s.scope(TState::NM + e, true, sc);
        if (std::find(sc.begin(), sc.end(), e) != sc.end()) { out.push_back({machine + ":invariant:hierarchy-cyclic", {{"state", s.str()}, {"via", "component is its own descendant"}}}); break; }
    }
}

struct ForestWorld
{
    static constexpr int NM = TState::NM, NE = TState::NE, NK = TState::NK;
    std::vector<Slot<Model>> mod;
    std::vector<Slot<Component>> comp;
    TState ref;
    bool dead = false;
    std::string deadWhy;

    enum Kind { ADD, RM_IDX, RM_NAME, RM_PTR, TAKE_IDX, TAKE_NAME, REPL_IDX, REPL_NAME, REPL_PTR, RM_ALL, HAS_PTR, HAS_NAME, DROP_E, DROP_M, KINDS };
    static const char *kindName(int k)
    {
        static const char *K[] = {"addComponent", "removeComponent(index)", "removeComponent(name)", "removeComponent(ptr)", "takeComponent(index)", "takeComponent(name)", "replaceComponent(index)", "replaceComponent(name)", "replaceComponent(ptr)", "removeAllComponents", "containsComponent(ptr)", "containsComponent(name)", "dropComponentRef", "dropModelRef"};
        return K[k];
    }
    struct Op { Kind k; int p; int a; int b; bool se; };
    static const char *nameOf(int n) { static const char *N[] = {"c", "d", "zz"}; return N[n]; }
    static const std::vector<Op> &ops()
    {
        static std::vector<Op> o;
        if (o.empty()) {
            for (int p = 0; p < NK; ++p) {
                for (int e = 0; e < NE; ++e) o.push_back({ADD, p, e, 0, false});
                for (int i = 0; i < 3; ++i) o.push_back({RM_IDX, p, i, 0, false});
                for (int i = 0; i < 3; ++i) o.push_back({TAKE_IDX, p, i, 0, false});
                for (int se = 0; se < 2; ++se) {
                    for (int n = 0; n < 3; ++n) o.push_back({RM_NAME, p, n, 0, bool(se)});
                    for (int e = 0; e < NE; ++e) o.push_back({RM_PTR, p, e, 0, bool(se)});
                    for (int n = 0; n < 3; ++n) o.push_back({TAKE_NAME, p, n, 0, bool(se)});
                    for (int e = 0; e < NE; ++e) o.push_back({HAS_PTR, p, e, 0, bool(se)});
                    for (int n = 0; n < 3; ++n) o.push_back({HAS_NAME, p, n, 0, bool(se)});
                    for (int n = 0; n < 3; ++n) for (int e = 0; e < NE; ++e) o.push_back({REPL_NAME, p, n, e, bool(se)});
                    for (int x = 0; x < NE; ++x) for (int e = 0; e < NE; ++e) o.push_back({REPL_PTR, p, x, e, bool(se)});
                }
                for (int i = 0; i < 3; ++i) for (int e = 0; e < NE; ++e) o.push_back({REPL_IDX, p, i, e, false});
                o.push_back({RM_ALL, p, 0, 0, false});
            }
            for (int e = 0; e < NE; ++e) o.push_back({DROP_E, 0, e, 0, false});
            for (int m = 0; m < NM; ++m) o.push_back({DROP_M, m, 0, 0, false});
        }
        return o;
    }
    static int opCount() { return int(ops().size()); }
    static std::string opName(int i)
    {
        const Op &o = ops()[i];
        std::string P = TState::kname(o.p), se = o.se ? ", searchEncapsulated=true" : ", searchEncapsulated=false";
        auto C = [](int e) { return "c" + std::to_string(e); };
        auto base = [&](Kind k) { std::string s = kindName(k); return s.substr(0, s.find('(')); };
        switch (o.k) {
        case ADD: return P + ".addComponent(" + C(o.a) + ")";
        case RM_IDX: case TAKE_IDX: return P + "." + base(o.k) + "(" + std::to_string(o.a) + ")";
        case RM_NAME: case TAKE_NAME: case HAS_NAME: return P + "." + base(o.k) + "(\"" + nameOf(o.a) + "\"" + se + ")";
        case RM_PTR: case HAS_PTR: return P + "." + base(o.k) + "(" + C(o.a) + se + ")";
        case REPL_IDX: return P + ".replaceComponent(" + std::to_string(o.a) + ", " + C(o.b) + ")";
        case REPL_NAME: return P + ".replaceComponent(\"" + nameOf(o.a) + "\", " + C(o.b) + se + ")";
        case REPL_PTR: return P + ".replaceComponent(" + C(o.a) + ", " + C(o.b) + se + ")";
        case RM_ALL: return P + ".removeAllComponents()";
        case DROP_E: return "drop harness reference to " + C(o.a);
        case DROP_M: return "drop harness reference to M" + std::to_string(o.p);
        default: return "?";
        }
    }

    ForestWorld()
    {
        mod.resize(NM);
        comp.resize(NE);
        for (int m = 0; m < NM; ++m) mod[m].init(Model::create("m" + std::to_string(m)));
        for (int e = 0; e < NE; ++e) comp[e].init(Component::create(TState::nameClass(e)));
        ref.lists.assign(NK, {});
        ref.parent.assign(NE, -1);
        ref.heldM.assign(NM, 1);
        ref.heldE.assign(NE, 1);
        ref.aliveE.assign(NE, 1);
    }
    int idxOf(const ComponentPtr &p) const
    {
        if (!p) return -1;
        for (int e = 0; e < NE; ++e) if (comp[e].alive() && comp[e].raw == p.get()) return e;
        return -2;
    }
    ComponentEntityPtr container(int k) const { return k < NM ? ComponentEntityPtr(mod[k].held) : ComponentEntityPtr(comp[k - NM].held); }
    TState observe() const
    {
        TState s;
        s.lists.assign(NK, {});
        s.parent.assign(NE, -1);
        s.heldM.assign(NM, 0);
        s.heldE.assign(NE, 0);
        s.aliveE.assign(NE, 0);
        for (int k = 0; k < NK; ++k) {
            ComponentEntityPtr p = k < NM ? ComponentEntityPtr(mod[k].peek()) : ComponentEntityPtr(comp[k - NM].peek());
            if (k < NM) s.heldM[k] = mod[k].held != nullptr;
            else { s.heldE[k - NM] = comp[k - NM].held != nullptr; s.aliveE[k - NM] = p != nullptr; }
            if (p) for (size_t i = 0; i < p->componentCount() && i < 16; ++i) s.lists[k].push_back(idxOf(p->component(i)));
        }
        for (int e = 0; e < NE; ++e) {
            auto p = comp[e].peek();
            if (!p) continue;
            auto par = p->parent();
            if (!par) continue;
            s.parent[e] = -2;
            for (int m = 0; m < NM; ++m) if (mod[m].alive() && par.get() == static_cast<ParentedEntity *>(mod[m].raw)) s.parent[e] = m;
            for (int x = 0; x < NE; ++x) if (comp[x].alive() && par.get() == static_cast<ParentedEntity *>(comp[x].raw)) s.parent[e] = NM + x;
        }
        return s;
    }
    bool heldK(const TState &s, int k) const { return k < NM ? s.heldM[k] : s.heldE[k - NM]; }
    bool enabled(int i)
    {
        if (dead) return false;
        const Op &o = ops()[i];
        const TState &s = ref;
        switch (o.k) {
        case DROP_E: return s.heldE[o.a];
        case DROP_M: return s.heldM[o.p];
        case ADD: case RM_PTR: case HAS_PTR: return heldK(s, o.p) && s.heldE[o.a];
        case REPL_IDX: case REPL_NAME: return heldK(s, o.p) && s.heldE[o.b];
        case REPL_PTR: return heldK(s, o.p) && s.heldE[o.a] && s.heldE[o.b];
        default: return heldK(s, o.p);
        }
    }
    static void eraseFrom(std::vector<int> &l, int v) { auto it = std::find(l.begin(), l.end(), v); if (it != l.end()) l.erase(it); }
    static bool contains(const std::vector<int> &l, int v) { return std::find(l.begin(), l.end(), v) != l.end(); }
    static void detach(TState &t, int e) { if (t.parent[e] >= 0) eraseFrom(t.lists[t.parent[e]], e); t.parent[e] = -1; }

    std::vector<TAllowed> refStep(const Op &o, std::string &situation) const
    {
        std::vector<TAllowed> al;
        const TState &s = ref;
        auto unchanged = [&](const std::string &ret) { al.push_back({s, ret}); };
        auto removeOne = [&](int e, bool take) {
            TState t = s;
            detach(t, e);
            if (take) t.heldE[e] = 1;
            t.settle();
            al.push_back({t, take ? "c" + std::to_string(e) : std::string("true")});
        };
        auto named = [&](int e, int n) { return std::string(TState::nameClass(e)) == nameOf(n); };
        std::vector<int> sc;
        if (o.k != ADD && o.k != DROP_E && o.k != DROP_M) s.scope(o.p, o.se, sc);
        auto lookAlikes = [&](int e) { std::vector<int> r; for (int x : sc) if (x != e && s.eq(x, e)) r.push_back(x); return r; };
        // replacement of component x (which has a parent container) by nw; false => outside the claim
        auto replaceOne = [&](int x, int nw) -> bool {
            int px = s.parent[x];
            if (nw == x) { unchanged("true"); unchanged("false"); situation += "+replacement-is-target"; return true; }
            // a replacement that is a sibling of x moves into x's slot; every other child keeps its relative order (exact)
            bool sibling = s.parent[nw] == px;
            if (sibling) {
                auto &l = s.lists[px];
                situation += (std::find(l.begin(), l.end(), nw) < std::find(l.begin(), l.end(), x)) ? "+replacement-is-earlier-sibling" : "+replacement-is-later-sibling";
            }
            if (px >= NM && (px - NM == nw || s.isAncestor(nw, px - NM))) { unchanged("false"); situation += "+replacement-is-ancestor-of-slot"; return true; }
            TState t = s;
            detach(t, nw);
            auto it = std::find(t.lists[px].begin(), t.lists[px].end(), x);
            *it = nw;
            t.parent[x] = -1;
            t.parent[nw] = px;
            t.settle();
            al.push_back({t, "true"});
            if (sibling) return true;
            if (s.parent[nw] >= 0) {
                unchanged("false");
                situation += (nw != x && s.isAncestor(x, nw)) ? "+replacement-is-descendant-of-target" : "+replacement-has-other-parent";
            } else situation += "+replacement-parentless";
            return true;
        };
        switch (o.k) {
        case ADD: {
            if (s.parent[o.a] == o.p) { situation = "add-to-current-parent"; return {}; }
            if (o.p >= NM && (o.p - NM == o.a || s.isAncestor(o.a, o.p - NM))) {
                unchanged("false");
                situation = std::string(o.p - NM == o.a ? "self-insertion" : "descendant-receives-its-ancestor") + (s.parent[o.a] >= 0 ? "+child-has-parent" : "+child-parentless");
                break;
            }
            TState t = s;
            detach(t, o.a);
            t.lists[o.p].push_back(o.a);
            t.parent[o.a] = o.p;
            t.settle();
            al.push_back({t, "true"});
            situation = s.parent[o.a] >= 0 ? "move" : "add";
            if (s.parent[o.a] >= 0) for (int w : s.lists[s.parent[o.a]]) if (w != o.a && s.eq(w, o.a)) { situation += "+look-alike-sibling"; break; }
            break;
        }
        case RM_IDX: case TAKE_IDX:
            if (size_t(o.a) < s.lists[o.p].size()) { removeOne(s.lists[o.p][o.a], o.k == TAKE_IDX); situation = "in-range"; }
            else { unchanged(o.k == RM_IDX ? "false" : "null"); situation = "out-of-range"; }
            break;
        case RM_NAME: case TAKE_NAME: {
            bool any = false;
            for (int e : sc) if (named(e, o.a)) { removeOne(e, o.k == TAKE_NAME); any = true; }
            if (!any) unchanged(o.k == RM_NAME ? "false" : "null");
            situation = any ? "name-in-scope" : "name-absent";
            break;
        }
        case RM_PTR:
            if (contains(sc, o.a)) {
                removeOne(o.a, false);
                situation = contains(s.lists[o.p], o.a) ? "target-is-child" : "target-is-descendant";
                if (!lookAlikes(o.a).empty()) situation += "+look-alike-in-scope";
            } else {
                unchanged("false");
                situation = "target-not-in-scope";
                auto la = lookAlikes(o.a);
                for (int w : la) removeOne(w, false);
                if (!la.empty()) situation += "+look-alike-in-scope";
                if (s.parent[o.a] >= 0) situation += "+target-has-other-parent";
            }
            break;
        case HAS_PTR:
            if (contains(sc, o.a)) { unchanged("true"); situation = "target-in-scope"; }
            else {
                unchanged("false");
                situation = "target-not-in-scope";
                if (!lookAlikes(o.a).empty()) { unchanged("true"); situation += "+look-alike-in-scope"; }
            }
            break;
        case HAS_NAME: {
            bool any = false;
            for (int e : sc) if (named(e, o.a)) any = true;
            unchanged(any ? "true" : "false");
            break;
        }
        case REPL_IDX:
            if (size_t(o.a) < s.lists[o.p].size()) { situation = "in-range"; if (!replaceOne(s.lists[o.p][o.a], o.b)) return {}; }
            else { unchanged("false"); situation = "out-of-range"; }
            break;
        case REPL_NAME: {
            bool any = false;
            situation = "name-in-scope";
            for (int e : sc) if (named(e, o.a)) { any = true; if (!replaceOne(e, o.b)) return {}; }
            if (!any) { unchanged("false"); situation = "name-absent"; }
            break;
        }
        case REPL_PTR:
            if (contains(sc, o.a)) {
                situation = contains(s.lists[o.p], o.a) ? "target-is-child" : "target-is-descendant";
                if (!lookAlikes(o.a).empty()) situation += "+look-alike-in-scope";
                if (!replaceOne(o.a, o.b)) return {};
            } else {
                unchanged("false");
                situation = "target-not-in-scope";
                auto la = lookAlikes(o.a);
                if (!la.empty()) situation += "+look-alike-in-scope";
                if (s.parent[o.a] >= 0) situation += "+target-has-other-parent";
                for (int w : la) if (!replaceOne(w, o.b)) return {};
            }
            break;
        case RM_ALL: {
            TState t = s;
            for (int e : s.lists[o.p]) t.parent[e] = -1;
            t.lists[o.p].clear();
            t.settle();
            al.push_back({t, ""});
            break;
        }
        case DROP_E: {
            TState t = s;
            t.heldE[o.a] = 0;
            t.settle();
            al.push_back({t, ""});
            situation = t.aliveE[o.a] ? "still-owned" : "destroyed";
            break;
        }
        case DROP_M: {
            TState t = s;
            t.heldM[o.p] = 0;
            t.settle();
            al.push_back({t, ""});
            break;
        }
        default: break;
        }
        return al;
    }
    void apply(int i, std::vector<Viol> &out)
    {
        if (dead) return;
        const Op &o = ops()[i];
        std::string situation;
        auto allowed = refStep(o, situation);
        situation = uniqueTags(situation);
        std::string ret;
        auto B = [](bool b) { return std::string(b ? "true" : "false"); };
        auto taken = [&](const ComponentPtr &p) {
            int x = idxOf(p);
            if (x >= 0) comp[x].held = p;
            return x >= 0 ? "c" + std::to_string(x) : x == -1 ? std::string("null") : std::string("foreign");
        };
        ComponentEntityPtr P = (o.k == DROP_E || o.k == DROP_M) ? nullptr : container(o.p);
        switch (o.k) {
        case ADD: ret = B(P->addComponent(comp[o.a].held)); break;
        case RM_IDX: ret = B(P->removeComponent(size_t(o.a))); break;
        case RM_NAME: ret = B(P->removeComponent(std::string(nameOf(o.a)), o.se)); break;
        case RM_PTR: ret = B(P->removeComponent(comp[o.a].held, o.se)); break;
        case TAKE_IDX: ret = taken(P->takeComponent(size_t(o.a))); break;
        case TAKE_NAME: ret = taken(P->takeComponent(std::string(nameOf(o.a)), o.se)); break;
        case REPL_IDX: ret = B(P->replaceComponent(size_t(o.a), comp[o.b].held)); break;
        case REPL_NAME: ret = B(P->replaceComponent(std::string(nameOf(o.a)), comp[o.b].held, o.se)); break;
        case REPL_PTR: ret = B(P->replaceComponent(comp[o.a].held, comp[o.b].held, o.se)); break;
        case RM_ALL: P->removeAllComponents(); break;
        case HAS_PTR: ret = B(P->containsComponent(comp[o.a].held, o.se)); break;
        case HAS_NAME: ret = B(P->containsComponent(std::string(nameOf(o.a)), o.se)); break;
        case DROP_E: comp[o.a].held.reset(); break;
        case DROP_M: mod[o.p].held.reset(); break;
        default: break;
        }
        P.reset();
        TState obs = observe();
        if (allowed.empty()) { dead = true; deadWhy = "OUTSIDE-CLAIM:" + situation; return; }
        bool ok = false;
        for (auto &a : allowed) if (a.post == obs && a.ret == ret) { ok = true; break; }
        if (ok) { ref = obs; return; }
        json al = json::array();
        for (auto &a : allowed) al.push_back({{"state", a.post.str()}, {"ret", a.ret}});
        std::vector<Viol> iv;
        forestInvariants(obs, iv);
        std::set<std::string> kinds;
        for (auto &v : iv) kinds.insert(v.sig.substr(v.sig.rfind(':') + 1));
        std::string damage;
        for (auto &k : kinds) damage += "+" + k;
        if (damage.empty()) damage = "+consistent-but-wrong-object-or-return";
        out.push_back({std::string("forest:") + kindName(o.k) + ":" + situation + ":post-state-not-allowed" + damage,
                       {{"op", opName(i)}, {"pre", ref.str()}, {"observed", obs.str()}, {"ret", ret}, {"allowed", al}}});
        dead = true;
        deadWhy = "VIOLATED";
    }
    std::string canon() { return dead ? deadWhy : observe().str(); }
    void invariant(std::vector<Viol> &out)
    {
        if (dead) return;
        forestInvariants(observe(), out);
    }
};

} // namespace c09
