// C09 — flat container machines (units in models, resets in components) with drop-reference operations.
// One generic world; a Traits class binds it to the real API. The reference model is plain vectors + a parent map +
// "held by the harness" flags; liveness is derived (an entity lives while the harness or a live container holds it).
#pragma once
#include "xstate.hpp"

namespace c09 {
using namespace vf;

// a universe slot: the harness's own reference (may be dropped), plus observation-only handles
template<class T>
struct Slot
{
    std::shared_ptr<T> held;
    std::weak_ptr<T> weak;
    T *raw = nullptr; // identity only, never dereferenced
    void init(const std::shared_ptr<T> &p) { held = p; weak = p; raw = p.get(); }
    bool alive() const { return !weak.expired(); }
    std::shared_ptr<T> peek() const { return weak.lock(); } // observation only
};

// "base+tag+tag+..." with repeated tags removed (several candidates may add the same tag)
inline std::string uniqueTags(const std::string &s)
{
    std::vector<std::string> parts;
    std::stringstream ss(s);
    std::string t, r;
    while (std::getline(ss, t, '+')) if (std::find(parts.begin(), parts.end(), t) == parts.end()) parts.push_back(t);
    for (size_t i = 0; i < parts.size(); ++i) r += (i ? "+" : "") + parts[i];
    return r;
}

struct FState
{
    std::vector<std::vector<int>> lists; // per container: ordered universe indices (-2: object outside the universe)
    std::vector<int> parent;             // per entity: container index, -1 none, -2 unknown object
    std::vector<int> attr;               // per entity: attribute class that takes part in structural equality
    std::vector<char> heldE, heldC, aliveE, aliveC;
    bool operator==(const FState &o) const
    {
        return lists == o.lists && parent == o.parent && attr == o.attr && heldE == o.heldE && heldC == o.heldC && aliveE == o.aliveE && aliveC == o.aliveC;
    }
    std::string str() const
    {
        std::string s;
        for (size_t c = 0; c < lists.size(); ++c) {
            s += (aliveC[c] ? (heldC[c] ? "C" : "c") : "x") + std::to_string(c) + "[";
            for (size_t i = 0; i < lists[c].size(); ++i) s += (i ? "," : "") + std::to_string(lists[c][i]);
            s += "]";
        }
        s += " ent(";
        for (size_t e = 0; e < parent.size(); ++e)
            s += (e ? " " : "") + std::string(aliveE[e] ? (heldE[e] ? "H" : "o") : "x") + "p" + std::to_string(parent[e]) + "a" + std::to_string(attr[e]);
        return s + ")";
    }
};
struct FAllowed
{
    FState post;
    std::string ret;
};

inline void flatInvariants(const std::string &machine, const FState &s, std::vector<Viol> &out)
{
    std::map<int, int> listedBy;
    for (size_t c = 0; c < s.lists.size(); ++c) {
        std::set<int> here;
        for (int v : s.lists[c]) {
            if (v < 0) { out.push_back({machine + ":invariant:container-lists-unknown-object", {{"state", s.str()}}}); continue; }
            if (!here.insert(v).second) out.push_back({machine + ":invariant:entity-listed-twice", {{"state", s.str()}}});
            if (listedBy.count(v) && listedBy[v] != int(c)) out.push_back({machine + ":invariant:entity-listed-by-two-containers", {{"state", s.str()}}});
            listedBy[v] = int(c);
            if (s.parent[v] != int(c)) out.push_back({machine + ":invariant:listed-child-reports-other-parent", {{"state", s.str()}}});
        }
    }
}

template<class T>
struct FlatWorld
{
    using Cont = typename T::Cont;
    using Ent = typename T::Ent;
    static constexpr int NC = T::NC, NE = T::NE;
    T tr; // the real objects other than slots (owning model, variables, ...)
    std::vector<Slot<Cont>> cont;
    std::vector<Slot<Ent>> ent;
    FState ref;
    bool dead = false;
    std::string deadWhy;

    enum Kind { ADD, RM_IDX, RM_NAME, RM_PTR, TAKE_IDX, TAKE_NAME, RM_ALL, HAS_PTR, HAS_NAME, REPL_IDX, REPL_NAME, REPL_PTR, SET_ATTR, DROP_E, DROP_C, KINDS };
    static const char *kindName(int k)
    {
        static const char *K[] = {"add", "remove(index)", "remove(name)", "remove(ptr)", "take(index)", "take(name)", "removeAll", "has(ptr)", "has(name)", "replace(index)", "replace(name)", "replace(ptr)", "setAttr", "dropEntityRef", "dropContainerRef"};
        return K[k];
    }
    struct Op { Kind k; int c; int a; int b; };
    static const std::vector<Op> &ops()
    {
        static std::vector<Op> o;
        if (o.empty()) {
            for (int c = 0; c < NC; ++c) {
                for (int e = 0; e < NE; ++e) o.push_back({ADD, c, e, 0});
                for (int i = 0; i < 3; ++i) o.push_back({RM_IDX, c, i, 0});
                if (T::HAS_NAMES) for (int n = 0; n < 3; ++n) o.push_back({RM_NAME, c, n, 0});
                for (int e = 0; e < NE; ++e) o.push_back({RM_PTR, c, e, 0});
                for (int i = 0; i < 3; ++i) o.push_back({TAKE_IDX, c, i, 0});
                if (T::HAS_NAMES) for (int n = 0; n < 3; ++n) o.push_back({TAKE_NAME, c, n, 0});
                o.push_back({RM_ALL, c, 0, 0});
                for (int e = 0; e < NE; ++e) o.push_back({HAS_PTR, c, e, 0});
                if (T::HAS_NAMES) for (int n = 0; n < 3; ++n) o.push_back({HAS_NAME, c, n, 0});
                if (T::HAS_REPLACE) {
                    for (int i = 0; i < 3; ++i) for (int e = 0; e < NE; ++e) o.push_back({REPL_IDX, c, i, e});
                    for (int n = 0; n < 3; ++n) for (int e = 0; e < NE; ++e) o.push_back({REPL_NAME, c, n, e});
                    for (int x = 0; x < NE; ++x) for (int e = 0; e < NE; ++e) o.push_back({REPL_PTR, c, x, e});
                }
                if (T::DROP_CONT) o.push_back({DROP_C, c, 0, 0});
            }
            for (int e = 0; e < NE; ++e) {
                for (int a = 0; a < T::NATTR; ++a) o.push_back({SET_ATTR, 0, e, a});
                o.push_back({DROP_E, 0, e, 0});
            }
        }
        return o;
    }
    static int opCount() { return int(ops().size()); }
    static std::string opName(int i)
    {
        const Op &o = ops()[i];
        std::string C = std::string(T::contPrefix()) + std::to_string(o.c), E = T::entPrefix();
        switch (o.k) {
        case ADD: return C + "." + T::apiName(ADD) + "(" + E + std::to_string(o.a) + ")";
        case RM_IDX: case TAKE_IDX: return C + "." + T::apiName(o.k) + "(" + std::to_string(o.a) + ")";
        case RM_NAME: case TAKE_NAME: case HAS_NAME: return C + "." + T::apiName(o.k) + "(\"" + T::nameOf(o.a) + "\")";
        case RM_PTR: case HAS_PTR: return C + "." + T::apiName(o.k) + "(" + E + std::to_string(o.a) + ")";
        case RM_ALL: return C + "." + T::apiName(RM_ALL) + "()";
        case REPL_IDX: return C + "." + T::apiName(o.k) + "(" + std::to_string(o.a) + ", " + E + std::to_string(o.b) + ")";
        case REPL_NAME: return C + "." + T::apiName(o.k) + "(\"" + T::nameOf(o.a) + "\", " + E + std::to_string(o.b) + ")";
        case REPL_PTR: return C + "." + T::apiName(o.k) + "(" + E + std::to_string(o.a) + ", " + E + std::to_string(o.b) + ")";
        case SET_ATTR: return E + std::to_string(o.a) + "." + T::attrName(o.b);
        case DROP_E: return "drop harness reference to " + E + std::to_string(o.a);
        case DROP_C: return "drop harness reference to " + C;
        default: return "?";
        }
    }

    FlatWorld()
    {
        cont.resize(NC);
        ent.resize(NE);
        tr.build(cont, ent);
        ref.lists.assign(NC, {});
        ref.parent.assign(NE, -1);
        ref.attr.assign(NE, 0);
        ref.heldE.assign(NE, 1);
        ref.heldC.assign(NC, 1);
        ref.aliveE.assign(NE, 1);
        ref.aliveC.assign(NC, 1);
    }
    int idxOf(const std::shared_ptr<Ent> &p) const
    {
        if (!p) return -1;
        for (int e = 0; e < NE; ++e) if (ent[e].alive() && ent[e].raw == p.get()) return e;
        return -2;
    }
    FState observe() const
    {
        FState s;
        s.lists.assign(NC, {});
        s.parent.assign(NE, -1);
        s.attr.assign(NE, 0);
        s.heldE.assign(NE, 0);
        s.heldC.assign(NC, 0);
        s.aliveE.assign(NE, 0);
        s.aliveC.assign(NC, 0);
        for (int c = 0; c < NC; ++c) {
            s.heldC[c] = cont[c].held != nullptr;
            auto p = cont[c].peek();
            s.aliveC[c] = p != nullptr;
            if (p) for (size_t i = 0; i < T::count(p) && i < 16; ++i) s.lists[c].push_back(idxOf(T::at(p, i)));
        }
        for (int e = 0; e < NE; ++e) {
            s.heldE[e] = ent[e].held != nullptr;
            auto p = ent[e].peek();
            s.aliveE[e] = p != nullptr;
            if (!p) continue;
            auto par = p->parent();
            if (par) {
                s.parent[e] = -2;
                for (int c = 0; c < NC; ++c) if (cont[c].alive() && static_cast<void *>(cont[c].raw) == static_cast<void *>(std::dynamic_pointer_cast<Cont>(par).get())) s.parent[e] = c;
            }
            s.attr[e] = tr.attrOf(p);
        }
        return s;
    }
    bool lookAlike(const FState &s, int a, int b) const { return a == b || (T::baseClass(a) == T::baseClass(b) && s.attr[a] == s.attr[b]); }
    bool enabled(int i)
    {
        if (dead) return false;
        const Op &o = ops()[i];
        const FState &s = ref;
        auto hc = [&](int c) { return bool(s.heldC[c]); };
        auto he = [&](int e) { return bool(s.heldE[e]); };
        switch (o.k) {
        case ADD: case RM_PTR: case HAS_PTR: return hc(o.c) && he(o.a);
        case REPL_IDX: case REPL_NAME: return hc(o.c) && he(o.b);
        case REPL_PTR: return hc(o.c) && he(o.a) && he(o.b);
        case SET_ATTR: case DROP_E: return he(o.a);
        default: return hc(o.c);
        }
    }
    static void eraseFrom(std::vector<int> &l, int v) { auto it = std::find(l.begin(), l.end(), v); if (it != l.end()) l.erase(it); }
    static bool contains(const std::vector<int> &l, int v) { return std::find(l.begin(), l.end(), v) != l.end(); }
    static void detach(FState &t, int e) { if (t.parent[e] >= 0) eraseFrom(t.lists[t.parent[e]], e); t.parent[e] = -1; }
    static void settle(FState &t)
    {
        for (int c = 0; c < NC; ++c) {
            t.aliveC[c] = T::DROP_CONT ? t.heldC[c] : 1;
            if (!t.aliveC[c]) { for (int e : t.lists[c]) t.parent[e] = -1; t.lists[c].clear(); }
        }
        for (int e = 0; e < NE; ++e) {
            t.aliveE[e] = t.heldE[e] || t.parent[e] >= 0;
            if (!t.aliveE[e]) t.attr[e] = 0;
        }
    }

    // reference semantics: the set of allowed (post-state, return) pairs; empty => outside the claim (not judged)
    std::vector<FAllowed> refStep(const Op &o, std::string &situation) const
    {
        std::vector<FAllowed> al;
        const FState &s = ref;
        auto unchanged = [&](const std::string &ret) { al.push_back({s, ret}); };
        auto removeOne = [&](int c, int e, bool take) {
            FState t = s;
            eraseFrom(t.lists[c], e);
            t.parent[e] = -1;
            if (take) t.heldE[e] = 1;
            settle(t);
            al.push_back({t, take ? std::string(T::entPrefix()) + std::to_string(e) : "true"});
        };
        auto sameName = [&](int e, int n) { return std::string(T::entName(e)) == T::nameOf(n); };
        // replacement of child x of container c by entity nw; returns false when the call is outside the claim
        auto replaceOne = [&](int c, int x, int nw) -> bool {
            if (nw == x) { unchanged("true"); unchanged("false"); situation += "+replacement-is-target"; return true; }
            // a replacement that is a sibling of x moves into x's slot; every other child keeps its relative order (exact)
            bool sibling = s.parent[nw] == c;
            if (sibling) {
                auto &l = s.lists[c];
                situation += (std::find(l.begin(), l.end(), nw) < std::find(l.begin(), l.end(), x)) ? "+replacement-is-earlier-sibling" : "+replacement-is-later-sibling";
            }
            FState t = s;
            detach(t, nw);
            auto it = std::find(t.lists[c].begin(), t.lists[c].end(), x);
            *it = nw;
            t.parent[x] = -1;
            t.parent[nw] = c;
            settle(t);
            al.push_back({t, "true"});
            if (sibling) return true;
            if (s.parent[nw] >= 0) { unchanged("false"); situation += "+replacement-has-other-parent"; }
            else situation += "+replacement-parentless";
            return true;
        };
        switch (o.k) {
        case ADD: {
            if (s.parent[o.a] == o.c) { situation = "add-to-current-parent"; return {}; }
            FState t = s;
            detach(t, o.a);
            t.lists[o.c].push_back(o.a);
            t.parent[o.a] = o.c;
            settle(t);
            al.push_back({t, "true"});
            situation = s.parent[o.a] >= 0 ? "move" : "add";
            if (s.parent[o.a] >= 0) for (int w : s.lists[s.parent[o.a]]) if (w != o.a && lookAlike(s, w, o.a)) { situation += "+look-alike-sibling"; break; }
            break;
        }
        case RM_IDX: case TAKE_IDX:
            if (size_t(o.a) < s.lists[o.c].size()) { removeOne(o.c, s.lists[o.c][o.a], o.k == TAKE_IDX); situation = "in-range"; }
            else { unchanged(o.k == RM_IDX ? "false" : "null"); situation = "out-of-range"; }
            break;
        case RM_NAME: case TAKE_NAME: {
            bool any = false;
            for (int e : s.lists[o.c]) if (sameName(e, o.a)) { removeOne(o.c, e, o.k == TAKE_NAME); any = true; }
            if (!any) unchanged(o.k == RM_NAME ? "false" : "null");
            situation = any ? "name-present" : "name-absent";
            break;
        }
        case RM_PTR:
            if (contains(s.lists[o.c], o.a)) {
                removeOne(o.c, o.a, false);
                situation = "target-is-child";
                for (int w : s.lists[o.c]) if (w != o.a && lookAlike(s, w, o.a)) { situation += "+look-alike-sibling"; break; }
            } else {
                unchanged("false");
                situation = "target-not-child";
                bool la = false;
                for (int w : s.lists[o.c]) if (lookAlike(s, w, o.a)) { removeOne(o.c, w, false); la = true; }
                if (la) situation += "+look-alike-child";
                if (s.parent[o.a] >= 0) situation += "+target-has-other-parent";
            }
            break;
        case RM_ALL: {
            FState t = s;
            for (int e : s.lists[o.c]) t.parent[e] = -1;
            t.lists[o.c].clear();
            settle(t);
            al.push_back({t, ""});
            break;
        }
        case HAS_PTR:
            if (contains(s.lists[o.c], o.a)) { unchanged("true"); situation = "target-is-child"; }
            else {
                unchanged("false");
                situation = "target-not-child";
                for (int w : s.lists[o.c]) if (lookAlike(s, w, o.a)) { unchanged("true"); situation += "+look-alike-child"; break; }
            }
            break;
        case HAS_NAME: {
            bool any = false;
            for (int e : s.lists[o.c]) if (sameName(e, o.a)) any = true;
            unchanged(any ? "true" : "false");
            break;
        }
        case REPL_IDX:
            if (size_t(o.a) < s.lists[o.c].size()) { situation = "in-range"; if (!replaceOne(o.c, s.lists[o.c][o.a], o.b)) return {}; }
            else { unchanged("false"); situation = "out-of-range"; }
            break;
        case REPL_NAME: {
            bool any = false;
            situation = "name-present";
            for (int e : s.lists[o.c]) if (sameName(e, o.a)) { any = true; if (!replaceOne(o.c, e, o.b)) return {}; }
            if (!any) { unchanged("false"); situation = "name-absent"; }
            break;
        }
        case REPL_PTR:
            if (contains(s.lists[o.c], o.a)) {
                situation = "target-is-child";
                for (int w : s.lists[o.c]) if (w != o.a && lookAlike(s, w, o.a)) { situation += "+look-alike-sibling"; break; }
                if (!replaceOne(o.c, o.a, o.b)) return {};
            } else {
                unchanged("false");
                situation = "target-not-child";
                bool la = false;
                for (int w : s.lists[o.c]) if (lookAlike(s, w, o.a)) { la = true; if (!replaceOne(o.c, w, o.b)) return {}; }
                if (la) situation += "+look-alike-child";
                if (s.parent[o.a] >= 0) situation += "+target-has-other-parent";
            }
            break;
        case SET_ATTR: {
            FState t = s;
            t.attr[o.a] = T::applyAttr(s.attr[o.a], o.b);
            al.push_back({t, ""});
            break;
        }
        case DROP_E: {
            FState t = s;
            t.heldE[o.a] = 0;
            settle(t);
            al.push_back({t, ""});
            situation = s.parent[o.a] >= 0 ? "still-owned" : "destroyed";
            break;
        }
        case DROP_C: {
            FState t = s;
            t.heldC[o.c] = 0;
            settle(t);
            al.push_back({t, ""});
            break;
        }
        default: break;
        }
        return al;
    }
    void apply(int i, std::vector<Viol> &out)
    {
        if (dead) return;
        const Op &o = ops()[i];
        std::string situation;
        auto allowed = refStep(o, situation);
        situation = uniqueTags(situation);
        std::string ret;
        auto B = [](bool b) { return std::string(b ? "true" : "false"); };
        auto &c = cont[o.c].held;
        auto taken = [&](const std::shared_ptr<Ent> &p) {
            int x = idxOf(p);
            if (x >= 0) ent[x].held = p; // the caller now owns what it took
            return x >= 0 ? std::string(T::entPrefix()) + std::to_string(x) : x == -1 ? std::string("null") : std::string("foreign");
        };
        switch (o.k) {
        case ADD: ret = B(T::add(c, ent[o.a].held)); break;
        case RM_IDX: ret = B(T::rmIdx(c, size_t(o.a))); break;
        case RM_NAME: ret = B(T::rmName(c, T::nameOf(o.a))); break;
        case RM_PTR: ret = B(T::rmPtr(c, ent[o.a].held)); break;
        case TAKE_IDX: ret = taken(T::takeIdx(c, size_t(o.a))); break;
        case TAKE_NAME: ret = taken(T::takeName(c, T::nameOf(o.a))); break;
        case RM_ALL: T::rmAll(c); break;
        case HAS_PTR: ret = B(T::hasPtr(c, ent[o.a].held)); break;
        case HAS_NAME: ret = B(T::hasName(c, T::nameOf(o.a))); break;
        case REPL_IDX: ret = B(T::replIdx(c, size_t(o.a), ent[o.b].held)); break;
        case REPL_NAME: ret = B(T::replName(c, T::nameOf(o.a), ent[o.b].held)); break;
        case REPL_PTR: ret = B(T::replPtr(c, ent[o.a].held, ent[o.b].held)); break;
        case SET_ATTR: tr.setAttr(ent[o.a].held, o.b); break;
        case DROP_E: ent[o.a].held.reset(); break;
        case DROP_C: cont[o.c].held.reset(); break;
        default: break;
        }
        FState obs = observe();
        if (allowed.empty()) { dead = true; deadWhy = "OUTSIDE-CLAIM:" + situation; return; } // generated, must not crash, not judged
        bool ok = false;
        for (auto &a : allowed) if (a.post == obs && a.ret == ret) { ok = true; break; }
        if (ok) {
            ref = obs;
            std::vector<Viol> iv;
            flatInvariants(T::machine(), obs, iv);
            if (!iv.empty()) { dead = true; deadWhy = "VIOLATED"; for (auto &v : iv) out.push_back(v); } // cannot happen: allowed states are consistent
            return;
        }
        json al = json::array();
        for (auto &a : allowed) al.push_back({{"state", a.post.str()}, {"ret", a.ret}});
        // name the kind of damage, so that classes separate by root cause
        std::vector<Viol> iv;
        flatInvariants(T::machine(), obs, iv);
        std::set<std::string> kinds;
        for (auto &v : iv) kinds.insert(v.sig.substr(v.sig.rfind(':') + 1));
        std::string damage;
        for (auto &k : kinds) damage += "+" + k;
        if (damage.empty()) damage = "+consistent-but-wrong-object-or-return";
        out.push_back({std::string(T::machine()) + ":" + T::apiName(o.k) + ":" + situation + ":post-state-not-allowed" + damage,
                       {{"op", opName(i)}, {"pre", ref.str()}, {"observed", obs.str()}, {"ret", ret}, {"allowed", al}}});
        dead = true;
        deadWhy = "VIOLATED";
    }
    std::string canon() { return dead ? deadWhy : observe().str(); }
    void invariant(std::vector<Viol> &out)
    {
        if (dead) return;
        flatInvariants(T::machine(), observe(), out);
    }
};

// ------------------------------------------------------------------ units in models
struct UnitsTraits
{
    using Cont = Model;
    using Ent = Units;
    static constexpr int NC = 2, NE = 3, NATTR = 0;
    static constexpr bool HAS_NAMES = true, HAS_REPLACE = true, DROP_CONT = true;
    static const char *machine() { return "units"; }
    static const char *contPrefix() { return "M"; }
    static const char *entPrefix() { return "u"; }
    static const char *nameOf(int n) { static const char *N[] = {"u", "w", "zz"}; return N[n]; }
    static const char *entName(int e) { return e < 2 ? "u" : "w"; }
    static int baseClass(int e) { return e < 2 ? 0 : 1; } // u0, u1 structurally identical; u2 distinct
    static const char *attrName(int) { return ""; }
    static int applyAttr(int a, int) { return a; }
    static const char *apiName(int k)
    {
        static const char *K[] = {"addUnits", "removeUnits(index)", "removeUnits(name)", "removeUnits(ptr)", "takeUnits(index)", "takeUnits(name)", "removeAllUnits", "hasUnits(ptr)", "hasUnits(name)", "replaceUnits(index)", "replaceUnits(name)", "replaceUnits(ptr)", "", "dropUnitsRef", "dropModelRef"};
        return K[k];
    }
    void build(std::vector<Slot<Model>> &cont, std::vector<Slot<Units>> &ent)
    {
        for (int c = 0; c < NC; ++c) cont[c].init(Model::create("m" + std::to_string(c)));
        for (int e = 0; e < NE; ++e) {
            auto u = Units::create(entName(e));
            u->addUnit("metre", "milli", 1.0, 1.0); // identical content in every units: only the name separates u2
            ent[e].init(u);
        }
    }
    int attrOf(const UnitsPtr &) const { return 0; }
    void setAttr(const UnitsPtr &, int) {}
    static size_t count(const ModelPtr &m) { return m->unitsCount(); }
    static UnitsPtr at(const ModelPtr &m, size_t i) { return m->units(i); }
    static bool add(const ModelPtr &m, const UnitsPtr &u) { return m->addUnits(u); }
    static bool rmIdx(const ModelPtr &m, size_t i) { return m->removeUnits(i); }
    static bool rmName(const ModelPtr &m, const std::string &n) { return m->removeUnits(n); }
    static bool rmPtr(const ModelPtr &m, const UnitsPtr &u) { return m->removeUnits(u); }
    static UnitsPtr takeIdx(const ModelPtr &m, size_t i) { return m->takeUnits(i); }
    static UnitsPtr takeName(const ModelPtr &m, const std::string &n) { return m->takeUnits(n); }
    static void rmAll(const ModelPtr &m) { m->removeAllUnits(); }
    static bool hasPtr(const ModelPtr &m, const UnitsPtr &u) { return m->hasUnits(u); }
    static bool hasName(const ModelPtr &m, const std::string &n) { return m->hasUnits(n); }
    static bool replIdx(const ModelPtr &m, size_t i, const UnitsPtr &u) { return m->replaceUnits(i, u); }
    static bool replName(const ModelPtr &m, const std::string &n, const UnitsPtr &u) { return m->replaceUnits(n, u); }
    static bool replPtr(const ModelPtr &m, const UnitsPtr &o, const UnitsPtr &u) { return m->replaceUnits(o, u); }
};

// ------------------------------------------------------------------ resets in components
// r0, r1 identical (order 1), r2 distinct (order 2). setVariable / setTestVariable change structural equality, so the
// look-alike relation is part of the state: attr = variable class (0 none, 1 va, 2 vb) + 3 * test-variable class (0 none, 1 va).
template<bool FULL>
struct ResetTraits
{
    using Cont = Component;
    using Ent = Reset;
    static constexpr int NC = 2, NE = 3, NATTR = FULL ? 5 : 2; // reduced alphabet: setVariable(null), setVariable(va)
    static constexpr bool HAS_NAMES = false, HAS_REPLACE = false, DROP_CONT = false;
    ModelPtr model;
    VariablePtr va, vb;
    static const char *machine() { return "resets"; }
    static const char *contPrefix() { return "c"; }
    static const char *entPrefix() { return "r"; }
    static const char *nameOf(int) { return ""; }
    static const char *entName(int) { return ""; }
    static int baseClass(int e) { return e < 2 ? 0 : 1; }
    static const char *attrName(int a)
    {
        static const char *N[] = {"setVariable(null)", "setVariable(va)", "setVariable(vb)", "setTestVariable(null)", "setTestVariable(va)"};
        return N[a];
    }
    static int applyAttr(int cur, int a) { return a < 3 ? (cur / 3) * 3 + a : (cur % 3) + 3 * (a - 3); }
    static const char *apiName(int k)
    {
        static const char *K[] = {"addReset", "removeReset(index)", "", "removeReset(ptr)", "takeReset(index)", "", "removeAllResets", "hasReset(ptr)", "", "", "", "", "setVariable", "dropResetRef", ""};
        return K[k];
    }
    void build(std::vector<Slot<Component>> &cont, std::vector<Slot<Reset>> &ent)
    {
        model = Model::create("m");
        for (int c = 0; c < NC; ++c) { auto k = Component::create("c" + std::to_string(c)); model->addComponent(k); cont[c].init(k); }
        va = Variable::create("a");
        vb = Variable::create("b");
        cont[0].held->addVariable(va);
        cont[0].held->addVariable(vb);
        for (int e = 0; e < NE; ++e) ent[e].init(Reset::create(e < 2 ? 1 : 2));
    }
    int attrOf(const ResetPtr &r) const
    {
        auto v = r->variable(), t = r->testVariable();
        int a = !v ? 0 : v == va ? 1 : v == vb ? 2 : 9;
        int b = !t ? 0 : t == va ? 1 : 9;
        return a + 3 * b;
    }
    void setAttr(const ResetPtr &r, int a)
    {
        switch (a) {
        case 0: r->setVariable(nullptr); break;
        case 1: r->setVariable(va); break;
        case 2: r->setVariable(vb); break;
        case 3: r->setTestVariable(nullptr); break;
        case 4: r->setTestVariable(va); break;
        }
    }
    static size_t count(const ComponentPtr &c) { return c->resetCount(); }
    static ResetPtr at(const ComponentPtr &c, size_t i) { return c->reset(i); }
    static bool add(const ComponentPtr &c, const ResetPtr &r) { return c->addReset(r); }
    static bool rmIdx(const ComponentPtr &c, size_t i) { return c->removeReset(i); }
    static bool rmName(const ComponentPtr &, const std::string &) { return false; }
    static bool rmPtr(const ComponentPtr &c, const ResetPtr &r) { return c->removeReset(r); }
    static ResetPtr takeIdx(const ComponentPtr &c, size_t i) { return c->takeReset(i); }
    static ResetPtr takeName(const ComponentPtr &, const std::string &) { return nullptr; }
    static void rmAll(const ComponentPtr &c) { c->removeAllResets(); }
    static bool hasPtr(const ComponentPtr &c, const ResetPtr &r) { return c->hasReset(r); }
    static bool hasName(const ComponentPtr &, const std::string &) { return false; }
    static bool replIdx(const ComponentPtr &, size_t, const ResetPtr &) { return false; }
    static bool replName(const ComponentPtr &, const std::string &, const ResetPtr &) { return false; }
    static bool replPtr(const ComponentPtr &, const ResetPtr &, const ResetPtr &) { return false; }
};

} // namespace c09
