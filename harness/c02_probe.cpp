// FLAVOURS: plain asan
// throw-away probe: c02_probe <file> [permissive]
#include "common.hpp"
#include <fstream>
using namespace vf;
int main(int argc, char **argv)
{
    std::ifstream f(argv[1]); std::stringstream ss; ss << f.rdbuf();
    bool strict = argc < 3;
    auto p = Parser::create(strict);
    auto m = p->parseModel(ss.str());
    printf("PARSER issues: %s\n", issuesJson(p).dump(1).c_str());
    printf("CANON: %s\n", canonModel(m).c_str());
    auto v = Validator::create(); v->validateModel(m);
    printf("VALIDATOR issues: %s\n", issuesJson(v).dump(1).c_str());
    auto pr = Printer::create();
    printf("PRINTED:\n%s\n", pr->printModel(m).c_str());
    return 0;
}
