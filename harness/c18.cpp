// FLAVOURS: asan plain
// C18 — variable-equivalence queries agree with the connection graph, regardless of object addresses, query order
// and repetition.
//
// (a) graph part (asan): families `graph` (all graphs on n <= MAXN variables x placements over 2-3 components x hierarchy,
//     orders lexicographic / reverse / each-pair-first) and `perm` (n <= 3: ALL permutations of the ordered pairs).
//     Oracle: union-find reachability computed from the public equivalentVariable(i) lists.
// (b) address part (plain only, the harness owns operator new): `selfcheck` (the collision enumerator against brute force
//     on scaled-down word widths), `window` (key model K(a,b) explored exhaustively over an address window: all sums
//     enumerated, sorted, near-equal values expanded into concrete colliding address pairs; every witness is replayed on
//     real Variable objects PLACED at those addresses), `grid` (binding of the model to the code: the key the real code
//     stored is compared with K on spread / dense address sets, answers are compared with reachability for all pairs).
// (c) history part (asan): machines `ids3` / `ids4` - explicit-state search (xstate.hpp, implementation = transition
//     relation) over API histories that interleave add / add-with-ids / remove / removeAll with the identifier operations
//     (set/remove mapping and connection ids on direct, indirect AND unconnected pairs, both argument orders).  In every
//     reached state all ordered pairs are asked of both query functions (fresh analysis) and of both id getters; the
//     reference treats identifiers as decorations that never change connectivity.
#include "xstate.hpp"

#include "analysermodel_p.h"
#include "variable_p.h"

#include <new>
#include <numeric>
#include <sys/mman.h>
#include <sys/personality.h>

using namespace vf;

// =================================================================== observation of the private cache (SFINAE-guarded)
namespace probe {
template<int N> struct Rank : Rank<N - 1> {};
template<> struct Rank<0> {};

template<class T, class = void> struct HasCache : std::false_type {};
template<class T> struct HasCache<T, std::void_t<decltype(std::declval<T &>().mCachedEquivalentVariables)>> : std::true_type {};

template<class C, class = void> struct MapLike : std::false_type {};
template<class C>
struct MapLike<C, std::void_t<typename C::key_type, typename C::mapped_type, decltype(std::declval<const C &>().size()),
                              decltype(std::declval<const C &>().begin()->first), decltype(std::declval<const C &>().begin()->second),
                              decltype(std::declval<C &>() = std::declval<const C &>())>> : std::true_type {};

static std::string hex(uint64_t v)
{
    char b[32];
    snprintf(b, sizeof b, "0x%llx", (unsigned long long)v);
    return b;
}
template<class K> auto keyStr(const K &k, Rank<2>) -> std::enable_if_t<std::is_integral_v<K>, std::string> { return hex(uint64_t(k)); }
template<class A, class B> std::string keyStr(const std::pair<A, B> &k, Rank<1>) { return "(" + keyStr(k.first, Rank<2>()) + "," + keyStr(k.second, Rank<2>()) + ")"; }
template<class K> std::string keyStr(const K &, Rank<0>) { return "<opaque>"; }

template<class K> struct KeyKind { static const char *name() { return "opaque"; } };
template<> struct KeyKind<uintptr_t> { static const char *name() { return "uintptr"; } };
template<class A, class B> struct KeyKind<std::pair<A, B>> { static const char *name() { return "pair"; } };

struct CacheObs
{
    bool observable = false;
    std::string keyKind = "none";                               // uintptr | pair | opaque | none
    std::function<size_t()> size;                               // number of cached entries
    std::function<std::vector<std::string>()> entries;          // "key=value" strings (small caches only)
    std::function<int(uint64_t)> scalarLookup;                  // -1 absent, 0/1 cached value; only when the key is one integer
    std::function<std::function<void()>()> snapshot;            // returns a closure that restores the present contents
};

template<class I> CacheObs observe(I *impl)
{
    CacheObs o;
    if constexpr (HasCache<I>::value) {
        auto &cache = impl->mCachedEquivalentVariables;
        using C = std::decay_t<decltype(cache)>;
        if constexpr (MapLike<C>::value) {
            using K = typename C::key_type;
            o.observable = true;
            o.keyKind = KeyKind<K>::name();
            o.size = [&cache] { return size_t(cache.size()); };
            o.entries = [&cache] {
                std::vector<std::string> r;
                for (const auto &kv : cache) r.push_back(keyStr(kv.first, Rank<2>()) + "=" + (kv.second ? "true" : "false"));
                return r;
            };
            if constexpr (std::is_integral_v<K>) {
                o.scalarLookup = [&cache](uint64_t k) {
                    auto it = cache.find(K(k));
                    return it == cache.end() ? -1 : (it->second ? 1 : 0);
                };
            }
            o.snapshot = [&cache] {
                auto copy = std::make_shared<C>(cache);
                return std::function<void()>([&cache, copy] { cache = *copy; });
            };
        }
    }
    return o;
}
static CacheObs observeModel(const AnalyserModelPtr &am) { return observe(am->mPimpl); }
} // namespace probe
using probe::CacheObs;
using probe::hex;

// =================================================================== common pieces
namespace {

struct UF
{
    std::vector<int> p;
    explicit UF(int n) : p(n) { std::iota(p.begin(), p.end(), 0); }
    int find(int x) { while (p[x] != x) x = p[x] = p[p[x]]; return x; }
    void unite(int a, int b) { p[find(a)] = find(b); }
    bool same(int a, int b) { return find(a) == find(b); }
    int classes() { int c = 0; for (size_t i = 0; i < p.size(); ++i) c += find(int(i)) == int(i); return c; }
};

// the reference: reachability over the symmetric closure of the public equivalentVariable(i) lists
UF reachability(const std::vector<VariablePtr> &vars, bool *listsClosed = nullptr)
{
    UF uf(int(vars.size()));
    std::map<const Variable *, int> ix;
    for (size_t i = 0; i < vars.size(); ++i) ix[vars[i].get()] = int(i);
    bool closed = true;
    for (size_t i = 0; i < vars.size(); ++i) {
        for (size_t e = 0; e < vars[i]->equivalentVariableCount(); ++e) {
            auto w = vars[i]->equivalentVariable(e);
            auto it = ix.find(w.get());
            if (it == ix.end()) { closed = false; continue; }
            uf.unite(int(i), it->second);
        }
    }
    if (listsClosed) *listsClosed = closed;
    return uf;
}

// *valid: the analysis succeeded (no issue; the model was valid and could be classified)
AnalyserModelPtr analyse(const ModelPtr &m, Ctx &c, bool *valid = nullptr)
{
    auto a = Analyser::create();
    a->analyseModel(m);
    c.logger(a, "analyser");
    if (valid) *valid = a->issueCount() == 0;
    return a->model();
}
// One variable of every equivalence class gets an initial value, so that a math-free model is analysable
// (all constants -> type ALGEBRAIC with one analyser variable per class).
void initialiseRepresentatives(std::vector<VariablePtr> &vars, UF &uf)
{
    for (size_t i = 0; i < vars.size(); ++i) if (uf.find(int(i)) == int(i)) vars[i]->setInitialValue(1.0);
}
std::string typeOf(const AnalyserModelPtr &am) { return AnalyserModel::typeAsString(am->type()); }

void emitViolation(Ctx &c, const std::string &sig, const json &detail, const std::vector<std::string> &args = {})
{
    ++c.violations;
    json j = {{"v", 1}, {"family", c.family}, {"i", c.index}, {"sig", sig}, {"detail", detail}};
    if (!args.empty()) j["args"] = args;
    std::string s = j.dump(-1, ' ', false, json::error_handler_t::replace);
    fputs(s.c_str(), stdout);
    fputc('\n', stdout);
    fflush(stdout);
}

uint64_t envU(const char *name, uint64_t dflt)
{
    const char *v = getenv(name);
    return v && *v ? strtoull(v, nullptr, 0) : dflt;
}

// =================================================================== (a) graph part
int MAXN = 4;
int npairs(int n) { return n * (n - 1) / 2; }
uint64_t ipow(uint64_t b, int e) { uint64_t r = 1; while (e-- > 0) r *= b; return r; }

struct GSpec
{
    int n = 0, k = 2, hier = 0;
    std::vector<int> place;
    uint32_t edges = 0;
    json show() const
    {
        json e = json::array();
        int bit = 0;
        for (int i = 0; i < n; ++i) for (int j = i + 1; j < n; ++j, ++bit) if (edges >> bit & 1) e.push_back({i, j});
        return {{"variables", n}, {"components", k}, {"hierarchy", hier ? "chain c0>c1>c2" : "flat siblings"}, {"component_of_variable", place}, {"edges", e}};
    }
};
// the hierarchy (which cannot influence the answers, only the validity of the model) is varied for n <= 4 only
uint64_t hierarchies(int n) { return n <= 4 ? 2 : 1; }
uint64_t graphBlock(int n, int k) { return (hierarchies(n) * ipow(k, n)) << npairs(n); }
uint64_t graphCount() { uint64_t t = 0; for (int n = 1; n <= MAXN; ++n) for (int k = 2; k <= 3; ++k) t += graphBlock(n, k); return t; }
GSpec graphAt(uint64_t i)
{
    GSpec g;
    for (int n = 1; n <= MAXN; ++n) for (int k = 2; k <= 3; ++k) {
        uint64_t b = graphBlock(n, k);
        if (i < b) {
            Radix r(i);
            g.n = n; g.k = k;
            g.edges = uint32_t(r.take(1ull << npairs(n)));
            for (int v = 0; v < n; ++v) g.place.push_back(int(r.take(k)));
            g.hier = int(r.take(hierarchies(n)));
            return g;
        }
        i -= b;
    }
    return g;
}

struct World
{
    ModelPtr m;
    std::vector<ComponentPtr> comps;
    std::vector<VariablePtr> vars;
    bool built = true; // every addEquivalence returned true
};
World buildWorld(const GSpec &g)
{
    World w;
    w.m = Model::create("m");
    for (int c = 0; c < g.k; ++c) w.comps.push_back(Component::create("c" + std::to_string(c)));
    if (g.hier == 0) for (auto &c : w.comps) w.m->addComponent(c);
    else {
        w.m->addComponent(w.comps[0]);
        for (int c = 1; c < g.k; ++c) w.comps[c - 1]->addComponent(w.comps[c]);
    }
    for (int v = 0; v < g.n; ++v) {
        auto x = Variable::create("v" + std::to_string(v));
        x->setUnits("dimensionless");
        x->setInterfaceType("public_and_private");
        w.comps[g.place[v]]->addVariable(x);
        w.vars.push_back(x);
    }
    int bit = 0;
    for (int i = 0; i < g.n; ++i) for (int j = i + 1; j < g.n; ++j, ++bit)
        if (g.edges >> bit & 1) w.built = Variable::addEquivalence(w.vars[i], w.vars[j]) && w.built;
    return w;
}

using Order = std::vector<std::pair<int, int>>;
int pairBit(int n, int i, int j)
{ // unordered pair incl. self -> bit index
    if (i > j) std::swap(i, j);
    return i * n - i * (i - 1) / 2 + (j - i);
}

struct Judge
{
    Ctx &c;
    const json &spec;
    std::vector<VariablePtr> &vars;
    UF &uf;
    bool valid;
    std::set<std::string> reported;
    uint64_t transitions = 0;
    std::set<uint32_t> masks; // distinct (set of unordered pairs queried so far) = cache-population states of this model

    void report(const std::string &sig, const Order &order, size_t pos, int rep, const char *orderName, bool got, bool want)
    {
        if (!reported.insert(sig).second) return;
        json o = json::array();
        for (auto &p : order) o.push_back({p.first, p.second});
        emitViolation(c, sig, {{"model", spec}, {"analysis_succeeded", valid}, {"order_name", orderName}, {"order", o}, {"position", pos}, {"repetition", rep}, {"got", got}, {"expected", want}});
    }
    // runs one query order on `am`, every query REPS times; startMask = unordered pairs already queried on this cache
    void run(const AnalyserModelPtr &am, const Order &order, const char *orderName, int reps = 3)
    {
        int n = int(vars.size());
        uint32_t mask = 0, orient = 0; // orient: ordered pairs already asked
        masks.insert(mask);
        for (size_t pos = 0; pos < order.size(); ++pos) {
            int i = order[pos].first, j = order[pos].second;
            bool self = i == j, linked = !self && uf.same(i, j);
            bool wantA = self || linked, wantH = linked;
            uint32_t ub = 1u << pairBit(n, i, j), ob = 1u << (i * n + j);
            const char *hist = (mask & ub) ? ((orient & ob) ? "asked-before" : "other-orientation-asked-before") : "first-question";
            bool h0 = false;
            for (int rep = 0; rep < reps; ++rep) {
                bool a = am->areEquivalentVariables(vars[i], vars[j]);
                bool h = vars[i]->hasEquivalentVariable(vars[j], true);
                transitions += 2;
                const char *when = rep ? "repeat" : hist;
                if (a != wantA)
                    report(std::string("graph:areEquivalentVariables:") + (a ? "got-true-expected-false" : "got-false-expected-true") + (self ? ":same-variable:" : ":distinct:") + when, order, pos, rep, orderName, a, wantA);
                if (!self && h != wantH)
                    report(std::string("graph:hasEquivalentVariable:") + (h ? "got-true-expected-false" : "got-false-expected-true") + ":distinct:" + when, order, pos, rep, orderName, h, wantH);
                // hasEquivalentVariable(v, true) on v itself: the statement does not fix the value; it must be stable
                if (self) {
                    if (rep == 0) h0 = h;
                    else if (h != h0) report("graph:hasEquivalentVariable:same-variable:unstable-under-repetition", order, pos, rep, orderName, h, h0);
                }
            }
            mask |= ub;
            orient |= ob;
            masks.insert(mask);
        }
    }
};

Order lexOrder(int n) { Order o; for (int i = 0; i < n; ++i) for (int j = 0; j < n; ++j) o.push_back({i, j}); return o; }

void runGraph(uint64_t idx, Ctx &c)
{
    GSpec g = graphAt(idx);
    World w = buildWorld(g);
    bool closed = true;
    UF uf = reachability(w.vars, &closed);
    initialiseRepresentatives(w.vars, uf);
    json spec = g.show();
    bool valid = false;
    auto am = analyse(w.m, c, &valid);
    CacheObs obs = probe::observeModel(am);
    std::function<void()> restore;
    if (obs.observable) restore = obs.snapshot();
    Judge J{c, spec, w.vars, uf, valid};
    Order lex = lexOrder(g.n);
    uint64_t traces = 0;
    J.run(am, lex, "lexicographic"); ++traces;
    {
        bool v2 = false;
        auto am2 = analyse(w.m, c, &v2); // a genuinely fresh analysis
        Order rev(lex.rbegin(), lex.rend());
        J.run(am2, rev, "reverse"); ++traces;
        if (v2 != valid) emitViolation(c, "graph:analyser-verdict-differs-between-two-analyses-of-the-same-model", {{"model", spec}});
    }
    for (size_t f = 0; f < lex.size(); ++f) {
        Order o;
        o.push_back(lex[f]);
        for (size_t q = 0; q < lex.size(); ++q) if (q != f) o.push_back(lex[q]);
        if (restore) restore(); else am = analyse(w.m, c);
        J.run(am, o, "pair-first"); ++traces;
    }
    ++c.judged;
    c.count("graph_states", J.masks.size());
    c.count("graph_transitions", J.transitions);
    c.count("graph_traces", traces);
    if (!restore) c.count("graph_cases_without_cache_snapshot");
    c.outcome("graph:" + typeOf(am) + ":n" + std::to_string(g.n) + ":classes" + std::to_string(uf.classes()) + (w.built && closed ? "" : ":lists-differ-from-intended-graph"));
}

// ---- perm: n <= 3, ALL permutations of the n^2 ordered pairs
uint64_t permCount() { uint64_t t = 0; for (int n = 1; n <= 3; ++n) t += 2ull << npairs(n); return t; }
GSpec permAt(uint64_t i)
{
    GSpec g;
    for (int n = 1; n <= 3; ++n) {
        uint64_t b = 2ull << npairs(n);
        if (i < b) {
            g.n = n;
            g.k = 2 + int(i & 1);
            g.edges = uint32_t(i >> 1);
            for (int v = 0; v < n; ++v) g.place.push_back(v % g.k);
            return g;
        }
        i -= b;
    }
    return g;
}
void runPerm(uint64_t idx, Ctx &c)
{
    GSpec g = permAt(idx);
    World w = buildWorld(g);
    UF uf = reachability(w.vars);
    initialiseRepresentatives(w.vars, uf);
    json spec = g.show();
    bool valid = false;
    auto am = analyse(w.m, c, &valid);
    CacheObs obs = probe::observeModel(am);
    std::function<void()> restore;
    if (obs.observable) restore = obs.snapshot();
    Judge J{c, spec, w.vars, uf, valid};
    Order o = lexOrder(g.n);
    uint64_t perms = 0;
    do {
        if (perms) { if (restore) restore(); else am = analyse(w.m, c); }
        J.run(am, o, "permutation");
        ++perms;
    } while (std::next_permutation(o.begin(), o.end()));
    ++c.judged;
    c.count("perm_states", J.masks.size());
    c.count("perm_transitions", J.transitions);
    c.count("perm_traces", perms);
    if (!restore) c.count("perm_cases_without_cache_snapshot");
    c.outcome("perm:" + typeOf(am) + ":n" + std::to_string(g.n) + ":classes" + std::to_string(uf.classes()));
}

// =================================================================== (b) the key model
// K as read from src/analysermodel.cpp: v1 <= v2 after the swap; key = ((v1 + v2) * (v1 + v2 + 1) >> 1U) + v2, all in
// uintptr_t arithmetic.  W is the word width (64 for the real thing; smaller widths only for the enumerator self-check).
struct KeyModel
{
    unsigned W;
    uint64_t mask;
    explicit KeyModel(unsigned w = 64) : W(w), mask(w >= 64 ? ~0ull : ((1ull << w) - 1)) {}
    uint64_t T(uint64_t s) const { return ((s * (s + 1)) & mask) >> 1; }
    uint64_t K(uint64_t a, uint64_t b) const
    {
        uint64_t lo = std::min(a, b), hi = std::max(a, b);
        uint64_t s = (lo + hi) & mask;
        return (T(s) + hi) & mask;
    }
};

constexpr uint64_t ALIGN = 16;  // malloc alignment on the platforms of interest
constexpr uint64_t OBJ = 32;    // sizeof(libcellml::Variable); checked at start-up

struct Quad { uint64_t a1, b1, a2, b2; }; // K(a1,b1) == K(a2,b2), {a1,b1} != {a2,b2}, a <= b
bool nonOverlapping(const Quad &q)
{
    uint64_t v[4] = {q.a1, q.b1, q.a2, q.b2};
    for (int i = 0; i < 4; ++i) for (int j = i + 1; j < 4; ++j) {
        uint64_t d = v[i] > v[j] ? v[i] - v[j] : v[j] - v[i];
        if (d != 0 && d < OBJ) return false;
    }
    return true;
}

struct WindowResult
{
    uint64_t sums = 0, nearPairs = 0, misaligned = 0, emptyRange = 0, collidingSumPairs = 0, concrete = 0, overlappingOnly = 0;
    uint64_t minSpan = UINT64_MAX;
    std::vector<Quad> witnesses; // per colliding sum pair: the lowest and the highest producible expansion
};

// All collisions of K among pairs (a <= b) of ALIGN-aligned addresses in [B, B+S).  Pairs with equal sum have different
// keys (different max), so a collision needs two different sums s1 != s2 with T(s1) + hi1 == T(s2) + hi2, i.e.
// |T(s1) - T(s2)| = |hi2 - hi1| < S: enumerate T over ALL sums, sort, expand every near pair.
WindowResult exploreWindow(const KeyModel &km, uint64_t B, uint64_t S, size_t witnessCap)
{
    WindowResult r;
    struct E { uint64_t t; uint32_t k; };
    uint64_t nsum = 2 * (S / ALIGN) - 1; // sums 2B + ALIGN*k, k = 0 .. 2*(S/ALIGN) - 2
    std::vector<E> v;
    v.reserve(nsum);
    for (uint64_t k = 0; k < nsum; ++k) v.push_back({km.T(2 * B + ALIGN * k), uint32_t(k)});
    r.sums = nsum;
    std::sort(v.begin(), v.end(), [](const E &x, const E &y) { return x.t < y.t || (x.t == y.t && x.k < y.k); });
    uint64_t top = B + S - ALIGN;
    auto range = [&](uint64_t s, uint64_t &lo, uint64_t &hi) { // admissible values of the larger address for sum s
        lo = (s / 2 + ALIGN - 1) / ALIGN * ALIGN;
        hi = std::min(s - B, top);
    };
    for (size_t i = 0; i < v.size(); ++i) {
        for (size_t j = i + 1; j < v.size() && v[j].t - v[i].t < S; ++j) {
            ++r.nearPairs;
            uint64_t d = v[j].t - v[i].t; // T2 - T1 >= 0  =>  hi1 = hi2 + d
            if (d % ALIGN) { ++r.misaligned; continue; }
            uint64_t s1 = 2 * B + ALIGN * v[i].k, s2 = 2 * B + ALIGN * v[j].k;
            uint64_t l1, h1, l2, h2;
            range(s1, l1, h1);
            range(s2, l2, h2);
            // hi2 in [l2,h2] and hi2 + d in [l1,h1]
            uint64_t lo = std::max(l2, l1 >= d ? l1 - d : 0), hi = h1 >= d ? std::min(h2, h1 - d) : 0;
            if (h1 < d || lo > hi) { ++r.emptyRange; continue; }
            ++r.collidingSumPairs;
            r.concrete += (hi - lo) / ALIGN + 1;
            auto mk = [&](uint64_t hi2) { return Quad{s1 - (hi2 + d), hi2 + d, s2 - hi2, hi2}; };
            bool found = false;
            Quad qlo{}, qhi{};
            for (uint64_t x = lo, n = 0; x <= hi && n < 8; x += ALIGN, ++n) if (nonOverlapping(mk(x))) { qlo = mk(x); found = true; break; }
            if (!found) { ++r.overlappingOnly; continue; }
            for (uint64_t x = hi, n = 0; x >= lo && n < 8; x -= ALIGN, ++n) { if (nonOverlapping(mk(x))) { qhi = mk(x); break; } if (x == lo) break; }
            for (const Quad &q : {qlo, qhi}) {
                uint64_t mn = std::min(q.a1, q.a2), mx = std::max(q.b1, q.b2);
                r.minSpan = std::min(r.minSpan, mx - mn + OBJ);
            }
            if (r.witnesses.size() < witnessCap) {
                r.witnesses.push_back(qlo);
                if (qhi.b2 != qlo.b2 && qhi.b2 != 0 && r.witnesses.size() < witnessCap) r.witnesses.push_back(qhi);
            }
        }
    }
    return r;
}

// brute force over all pairs, for the self-check of the enumerator
uint64_t bruteCollisions(const KeyModel &km, uint64_t B, uint64_t S, std::map<uint64_t, uint64_t> *groups = nullptr)
{
    std::vector<uint64_t> keys;
    for (uint64_t a = B; a < B + S; a += ALIGN) for (uint64_t b = a; b < B + S; b += ALIGN) keys.push_back(km.K(a, b));
    std::sort(keys.begin(), keys.end());
    uint64_t total = 0;
    for (size_t i = 0; i < keys.size();) {
        size_t j = i;
        while (j < keys.size() && keys[j] == keys[i]) ++j;
        uint64_t g = j - i;
        total += g * (g - 1) / 2;
        if (groups && g > 1) ++(*groups)[g];
        i = j;
    }
    return total;
}

struct SelfCase { unsigned W; uint64_t B, S; };
const std::vector<SelfCase> SELF = {
    {24, 0x100000, 0x8000}, {24, 0x400000, 0x10000}, {24, 0x7e0000, 0x10000}, {26, 0x1000000, 0x10000}, {28, 0x4000000, 0x10000},
    {28, 0x7ff0000, 0x10000}, {30, 0x10000000, 0x10000}, {32, 0x08000000, 0x10000}, {32, 0x40000000, 0x10000}, {32, 0x7fff0000, 0x10000},
    {32, 0x00010000, 0x10000}, {36, 0x400000000, 0x10000}, {64, 0x555558000000, 0x8000}, {64, 0x10000, 0x10000},
};
void runSelf(uint64_t i, Ctx &c)
{
    const SelfCase &s = SELF.at(i);
    KeyModel km(s.W);
    WindowResult r = exploreWindow(km, s.B, s.S, 100000);
    uint64_t brute = bruteCollisions(km, s.B, s.S);
    ++c.judged;
    c.count("selfcheck_pairs_brute_forced", (s.S / ALIGN) * (s.S / ALIGN + 1) / 2);
    c.count("selfcheck_collisions", brute);
    c.outcome(brute ? "selfcheck:collisions-present-and-counts-agree" : "selfcheck:no-collision-in-window");
    if (brute != r.concrete) emitViolation(c, "harness:selfcheck:enumerator-disagrees-with-brute-force", {{"W", s.W}, {"B", hex(s.B)}, {"S", s.S}, {"brute", brute}, {"enumerated", r.concrete}});
    for (const Quad &q : r.witnesses)
        if (km.K(q.a1, q.b1) != km.K(q.a2, q.b2) || (q.a1 == q.a2 && q.b1 == q.b2) || q.a1 > q.b1 || q.a2 > q.b2 || q.a1 < s.B || q.b1 >= s.B + s.S || q.a2 < s.B || q.b2 >= s.B + s.S)
            emitViolation(c, "harness:selfcheck:witness-is-not-a-collision", {{"W", s.W}, {"a1", hex(q.a1)}, {"b1", hex(q.b1)}, {"a2", hex(q.a2)}, {"b2", hex(q.b2)}});
}

// =================================================================== placement allocator (plain flavour only)
#ifdef VERIF_FLAVOUR_plain
#define C18_PLACEMENT 1
namespace arena {
struct Range { uintptr_t lo, hi; };
Range ranges[1024];
int nranges = 0;
uintptr_t nextAddr = 0; // when non-zero: the next request of sizeof(Variable) is served here
uint64_t served = 0;
inline bool inside(uintptr_t p)
{
    for (int i = 0; i < nranges; ++i) if (p >= ranges[i].lo && p < ranges[i].hi) return true;
    return false;
}
// maps [addr, addr+len) (page granularity), refusing to touch anything that is already mapped
bool mapRange(uintptr_t addr, size_t len)
{
    uintptr_t lo = addr & ~uintptr_t(4095), hi = (addr + len + 4095) & ~uintptr_t(4095);
    // pages already ours (two witnesses on one page)?
    uintptr_t cur = lo;
    while (cur < hi) {
        if (inside(cur)) { cur += 4096; continue; }
        uintptr_t end = cur;
        while (end < hi && !inside(end)) end += 4096;
        void *p = mmap(reinterpret_cast<void *>(cur), end - cur, PROT_READ | PROT_WRITE, MAP_PRIVATE | MAP_ANONYMOUS | MAP_FIXED_NOREPLACE, -1, 0);
        if (p == MAP_FAILED) return false;
        if (reinterpret_cast<uintptr_t>(p) != cur) { munmap(p, end - cur); return false; }
        if (nranges >= 1024) { munmap(p, end - cur); return false; }
        ranges[nranges++] = {cur, end};
        cur = end;
    }
    return true;
}
void unmapAll()
{
    for (int i = 0; i < nranges; ++i) munmap(reinterpret_cast<void *>(ranges[i].lo), ranges[i].hi - ranges[i].lo);
    nranges = 0;
}
} // namespace arena
} // namespace (reopened below)

void *operator new(std::size_t n)
{
    if (arena::nextAddr && n == sizeof(libcellml::Variable)) {
        void *p = reinterpret_cast<void *>(arena::nextAddr);
        arena::nextAddr = 0;
        ++arena::served;
        return p;
    }
    void *p = malloc(n ? n : 1);
    if (!p) throw std::bad_alloc();
    return p;
}
void operator delete(void *p) noexcept
{
    if (!p) return;
    if (arena::nranges && arena::inside(reinterpret_cast<uintptr_t>(p))) return;
    free(p);
}
void operator delete(void *p, std::size_t) noexcept { operator delete(p); }

namespace {
// a real libcellml::Variable whose object lives exactly at `addr` (the page must have been mapped)
VariablePtr placeVariable(uintptr_t addr, const std::string &name)
{
    arena::nextAddr = addr;
    VariablePtr v = Variable::create(name);
    if (arena::nextAddr != 0 || reinterpret_cast<uintptr_t>(v.get()) != addr) {
        fprintf(stderr, "c18: placement failed: wanted %p got %p\n", reinterpret_cast<void *>(addr), static_cast<void *>(v.get()));
        abort();
    }
    return v;
}

struct BaseDesc { uint64_t B; const char *what; };
const std::vector<BaseDesc> BASES = {
    // quick tier: the first 12
    {0x000000000a000000ull, "non-PIE brk heap below 4 GiB (control: no 64-bit wrap, pairing injective)"},
    {0x0000000100000000ull, "just above 4 GiB (onset of the wrap)"},
    {0x0000555558000000ull, "PIE brk heap, ASLR off"},
    {0x000055d0c4a00000ull, "PIE brk heap, ASLR on"},
    {0x00005623f1e00000ull, "PIE brk heap, ASLR on"},
    {0x0000602000000000ull, "ASan primary allocator region / macOS nano zone"},
    {0x0000614000000000ull, "ASan primary allocator region"},
    {0x00007f3a6c000000ull, "glibc non-main arena (64 MiB aligned mmap)"},
    {0x00007fa5d8000000ull, "glibc non-main arena / mmap chunk"},
    {0x00007ffe00000000ull, "mmap region, ASLR off"},
    {0x000001d4a2c00000ull, "Windows-style low heap"},
    {0x0000010000000000ull, "1 TiB"},
    // thorough tier adds
    {0x00000000f0000000ull, "just below 4 GiB (sums exceed 2^32)"},
    {0x0000000200000000ull, "8 GiB"},
    {0x0000001000000000ull, "64 GiB"},
    {0x00005581f6e00000ull, "PIE brk heap, ASLR on"},
    {0x000056004e200000ull, "PIE brk heap, ASLR on"},
    {0x0000564b0a200000ull, "PIE brk heap, ASLR on"},
    {0x0000603000000000ull, "ASan primary allocator region"},
    {0x000060c000000000ull, "ASan primary allocator region"},
    {0x0000621000000000ull, "ASan primary allocator region"},
    {0x00007f0000000000ull, "mmap region"},
    {0x00007f8b14000000ull, "glibc non-main arena"},
    {0x00007fc9a0000000ull, "glibc non-main arena"},
};
uint64_t NBASES = 12, WINDOW = 64ull << 20, WITNESS_CAP = 50, DENSE = 1024;

// ---- model binding: is the key the real code stored for {x,y} the model's K?
struct Bind
{
    Ctx &c;
    void check(const CacheObs &o, uint64_t x, uint64_t y)
    {
        if (!o.observable) { c.count("bind_unobservable"); return; }
        if (!o.scalarLookup) { c.count("bind_key_not_scalar"); return; }
        if (o.scalarLookup(KeyModel().K(x, y)) >= 0) c.count("bind_equal"); else c.count("bind_differs");
    }
};

struct Placed
{
    std::vector<uint64_t> addr;
    std::vector<VariablePtr> vars;
    int of(uint64_t a) const { for (size_t i = 0; i < addr.size(); ++i) if (addr[i] == a) return int(i); return -1; }
};

// One witness on the real code.  C = pair to be connected (or the same variable), U = pair left unconnected.
// Returns false when the addresses could not be mapped in this process.
bool replayQuad(Ctx &c, const Quad &q, const std::string &origin, int perSigCap, std::map<std::string, int> &emitted)
{
    KeyModel km;
    const uint64_t k1 = km.K(q.a1, q.b1), k2 = km.K(q.a2, q.b2);
    if (k1 != k2) { emitViolation(c, "harness:replay:quad-is-not-a-model-collision", {{"a1", hex(q.a1)}, {"b1", hex(q.b1)}, {"a2", hex(q.a2)}, {"b2", hex(q.b2)}}); return true; }
    std::vector<uint64_t> distinct = {q.a1, q.b1, q.a2, q.b2};
    std::sort(distinct.begin(), distinct.end());
    distinct.erase(std::unique(distinct.begin(), distinct.end()), distinct.end());
    for (uint64_t a : distinct) if (!arena::mapRange(a, sizeof(Variable))) { arena::unmapAll(); return false; }
    std::vector<std::string> args = {"--quad=" + hex(q.a1) + "," + hex(q.b1) + "," + hex(q.a2) + "," + hex(q.b2)};
    Bind bind{c};
    auto report = [&](const std::string &sig, json d) {
        c.count("address_wrong_answers");
        if (++emitted[sig] > perSigCap) return;
        d["origin"] = origin;
        d["addresses"] = {{"a1", hex(q.a1)}, {"b1", hex(q.b1)}, {"a2", hex(q.a2)}, {"b2", hex(q.b2)}};
        d["model_key"] = hex(k1);
        emitViolation(c, sig, d, args);
    };
    bool anyWrong = false;
    for (int variant = 0; variant < 2; ++variant) {
        const uint64_t ca = variant ? q.a2 : q.a1, cb = variant ? q.b2 : q.b1, ua = variant ? q.a1 : q.a2, ub = variant ? q.b1 : q.b2;
        if (ua == ub) { c.outcome("witness:variant-skipped:the-other-pair-is-one-variable"); continue; }
        for (int corder = 0; corder < 2; ++corder) {
            // ---- path 1: the model that contains the variables is analysed (the analysis itself fills the cache)
            {
                Placed P;
                std::vector<uint64_t> ord = corder == 0 ? std::vector<uint64_t>{ca, cb, ua, ub} : std::vector<uint64_t>{ua, ub, ca, cb};
                auto m = Model::create("m");
                for (uint64_t a : ord) {
                    if (P.of(a) >= 0) continue;
                    auto v = placeVariable(a, "v" + std::to_string(P.addr.size()));
                    v->setUnits("dimensionless");
                    v->setInterfaceType("public");
                    auto comp = Component::create("c" + std::to_string(P.addr.size()));
                    comp->addVariable(v);
                    m->addComponent(comp);
                    P.addr.push_back(a);
                    P.vars.push_back(v);
                }
                if (ca != cb) Variable::addEquivalence(P.vars[P.of(ca)], P.vars[P.of(cb)]);
                UF uf = reachability(P.vars);
                initialiseRepresentatives(P.vars, uf);
                bool valid = false;
                auto am = analyse(m, c, &valid);
                CacheObs obs = probe::observeModel(am);
                c.count("address_traces");
                int n = int(P.vars.size());
                // not judged here (C05's subject), but recorded: did the collision mislead the analysis itself?
                std::string symptom = !valid ? "analysis-of-a-valid-model-failed" : int(am->variableCount()) != uf.classes() ? "analyser-variable-count-differs-from-equivalence-classes" : "none";
                c.outcome("witness:analysis-symptom:" + symptom);
                for (int pass = 0; pass < 2; ++pass) for (int i = 0; i < n; ++i) for (int j = 0; j < n; ++j) for (int rep = 0; rep < 3; ++rep) {
                    int x = pass ? n - 1 - i : i, y = pass ? n - 1 - j : j;
                    bool want = x == y || uf.same(x, y);
                    bool got = am->areEquivalentVariables(P.vars[x], P.vars[y]);
                    bool h = P.vars[x]->hasEquivalentVariable(P.vars[y], true);
                    c.count("address_transitions", 2);
                    if (x != y && h != uf.same(x, y)) report("address:hasEquivalentVariable:wrong-answer", {{"x", hex(P.addr[x])}, {"y", hex(P.addr[y])}, {"got", h}});
                    if (got != want) {
                        anyWrong = true;
                        bool onCollision = km.K(P.addr[x], P.addr[y]) == k1;
                        report(std::string("address:areEquivalentVariables:") + (got ? "got-true-expected-false" : "got-false-expected-true") + (onCollision ? ":key-collision" : ":no-modelled-collision") + ":analysed-model",
                               {{"x", hex(P.addr[x])}, {"y", hex(P.addr[y])}, {"connected_pair", {hex(ca), hex(cb)}}, {"unconnected_pair", {hex(ua), hex(ub)}}, {"component_order", corder ? "unconnected-first" : "connected-first"},
                                {"analysis_symptom", symptom}, {"analyser_model_type", typeOf(am)}, {"analyser_variables", am->variableCount()}, {"equivalence_classes", uf.classes()},
                                {"cache", obs.observable ? json(obs.entries()) : json("unobservable")}, {"cache_key_kind", obs.keyKind}});
                    }
                }
                for (int i = 0; i < n; ++i) for (int j = i; j < n; ++j) bind.check(obs, P.addr[i], P.addr[j]);
            }
            // ---- path 2: a fresh analyser model (of an empty model); only the two colliding pairs are asked, in both orders
            {
                Placed P;
                for (uint64_t a : {ca, cb, ua, ub}) {
                    if (P.of(a) >= 0) continue;
                    P.vars.push_back(placeVariable(a, "w" + std::to_string(P.addr.size())));
                    P.addr.push_back(a);
                }
                if (ca != cb) Variable::addEquivalence(P.vars[P.of(ca)], P.vars[P.of(cb)]);
                UF uf = reachability(P.vars);
                auto am = analyse(Model::create("empty"), c);
                CacheObs obs = probe::observeModel(am);
                c.count("address_traces");
                std::vector<std::pair<uint64_t, uint64_t>> qs = corder == 0 ? std::vector<std::pair<uint64_t, uint64_t>>{{ca, cb}, {cb, ca}, {ua, ub}, {ub, ua}}
                                                                             : std::vector<std::pair<uint64_t, uint64_t>>{{ub, ua}, {ua, ub}, {cb, ca}, {ca, cb}};
                size_t before = obs.observable ? obs.size() : 0;
                for (size_t qi = 0; qi < qs.size(); ++qi) for (int rep = 0; rep < 3; ++rep) {
                    int x = P.of(qs[qi].first), y = P.of(qs[qi].second);
                    bool want = x == y || uf.same(x, y);
                    bool got = am->areEquivalentVariables(P.vars[x], P.vars[y]);
                    c.count("address_transitions");
                    if (got != want) {
                        anyWrong = true;
                        report(std::string("address:areEquivalentVariables:") + (got ? "got-true-expected-false" : "got-false-expected-true") + ":key-collision:fresh-analyser-model",
                               {{"x", hex(P.addr[x])}, {"y", hex(P.addr[y])}, {"connected_pair", {hex(ca), hex(cb)}}, {"unconnected_pair", {hex(ua), hex(ub)}}, {"query_order", corder ? "unconnected-first" : "connected-first"},
                                {"cache", obs.observable ? json(obs.entries()) : json("unobservable")}, {"cache_key_kind", obs.keyKind}});
                    }
                    if (qi == 0 && rep == 0) {
                        // the key inserted by THIS query = the cache before/after set difference (the cache was empty or `before`)
                        if (obs.observable && obs.size() == before + 1) bind.check(obs, qs[0].first, qs[0].second);
                        else if (obs.observable) c.count("bind_first_query_did_not_insert_one_key");
                    }
                }
                if (obs.observable) {
                    size_t grown = obs.size() - before;
                    c.outcome(grown == 1 ? "witness:real-cache-holds-ONE-key-for-the-two-pairs" : grown == 2 ? "witness:real-cache-holds-two-keys-for-the-two-pairs" : "witness:real-cache-grew-by-other");
                }
            }
        }
    }
    ++c.judged;
    c.outcome(anyWrong ? "witness:replayed:real-code-answers-wrong" : "witness:replayed:real-code-answers-right");
    arena::unmapAll();
    return true;
}

bool parseQuad(const std::string &s, Quad &q)
{
    unsigned long long a, b, cc, d;
    if (sscanf(s.c_str(), "%llx,%llx,%llx,%llx", &a, &b, &cc, &d) != 4) return false;
    q = {a, b, cc, d};
    return true;
}

std::string spanClass(uint64_t span)
{
    if (span == UINT64_MAX) return "none";
    int l = 0;
    while ((1ull << l) < span) ++l;
    return "<=2^" + std::to_string(l) + "B";
}

void runWindow(uint64_t i, Ctx &c)
{
    std::map<std::string, int> emitted;
    if (g_options.count("quad")) {
        Quad q;
        if (!parseQuad(g_options["quad"], q)) { emitViolation(c, "harness:bad-quad-option", {}); return; }
        if (!replayQuad(c, q, "--quad", 1000, emitted)) c.outcome("witness:unplaceable");
        return;
    }
    const BaseDesc &b = BASES.at(i);
    KeyModel km;
    WindowResult r = exploreWindow(km, b.B, WINDOW, WITNESS_CAP);
    c.count("model_sums_enumerated", r.sums);
    c.count("model_near_sum_pairs", r.nearPairs);
    c.count("model_near_pairs_misaligned", r.misaligned);
    c.count("model_near_pairs_out_of_window", r.emptyRange);
    c.count("model_colliding_sum_pairs", r.collidingSumPairs);
    c.count("model_colliding_sum_pairs_only_with_overlapping_objects", r.overlappingOnly);
    c.count("model_concrete_collisions", r.concrete);
    c.outcome(r.collidingSumPairs ? "window:collisions-exist:min-span" + spanClass(r.minSpan) : "window:no-collision");
    if (c.verbose) fprintf(stderr, "window %s +%llu MiB: sums=%llu near=%llu colliding-sum-pairs=%llu concrete=%llu witnesses=%zu min-span=%llu\n", hex(b.B).c_str(), (unsigned long long)(WINDOW >> 20),
                           (unsigned long long)r.sums, (unsigned long long)r.nearPairs, (unsigned long long)r.collidingSumPairs, (unsigned long long)r.concrete, r.witnesses.size(), (unsigned long long)r.minSpan);
    for (const Quad &q : r.witnesses) {
        c.count("witnesses");
        if (!replayQuad(c, q, hex(b.B) + "+" + std::to_string(WINDOW >> 20) + "MiB (" + b.what + ")", 3, emitted)) { c.count("witnesses_unplaceable"); c.outcome("witness:unplaceable"); }
    }
}

// ---- grid: binding + all-pairs correctness on address sets without modelled collisions
std::vector<uint64_t> gridAddresses(uint64_t B, int layout)
{
    std::vector<uint64_t> a;
    if (layout == 1) {
        for (uint64_t i = 0; i < DENSE; ++i) a.push_back(B + 0x100000 + i * OBJ); // consecutive objects, the tightest packing
        return a;
    }
    const uint64_t S = 64ull << 20;
    const uint64_t cl[12] = {0, 0xff0, 0x10000, 0x100000, 0x300550, 0x700000, 0x1000000, 0x1f007f0, 0x2000000, 0x2f00ab0, 0x3f00000, S - 0x4000};
    const uint64_t st[12] = {0, 32, 64, 112, 160, 240, 480, 1008, 2032, 4080, 8176, 12272};
    for (uint64_t x : cl) for (uint64_t y : st) a.push_back(B + x + y);
    std::sort(a.begin(), a.end());
    std::vector<uint64_t> r; // live objects do not overlap: drop an address closer than one object to its predecessor
    for (uint64_t x : a) if (r.empty() || x - r.back() >= OBJ) r.push_back(x);
    return r;
}
void runGrid(uint64_t idx, Ctx &c)
{
    int layout = int(idx % 2);
    const BaseDesc &b = BASES.at(idx / 2);
    std::vector<uint64_t> addr = gridAddresses(b.B, layout);
    for (size_t i = 1; i < addr.size(); ++i) if (addr[i] - addr[i - 1] < OBJ) { emitViolation(c, "harness:grid:overlapping-addresses", {}); return; }
    bool ok = layout == 1 ? arena::mapRange(addr.front(), addr.back() + sizeof(Variable) - addr.front()) : true;
    if (layout == 0) for (uint64_t a : addr) ok = ok && arena::mapRange(a, sizeof(Variable));
    if (!ok) { arena::unmapAll(); c.outcome("grid:unplaceable"); return; }
    KeyModel km;
    // does the MODEL predict a collision inside this set?
    std::vector<uint64_t> keys;
    for (size_t i = 0; i < addr.size(); ++i) for (size_t j = i; j < addr.size(); ++j) keys.push_back(km.K(addr[i], addr[j]));
    std::sort(keys.begin(), keys.end());
    size_t distinctK = size_t(std::unique(keys.begin(), keys.end()) - keys.begin());
    size_t npair = addr.size() * (addr.size() + 1) / 2;
    {
        auto m = Model::create("m");
        std::vector<ComponentPtr> comps;
        for (int k = 0; k < 3; ++k) { comps.push_back(Component::create("c" + std::to_string(k))); m->addComponent(comps.back()); }
        std::vector<VariablePtr> vars;
        for (size_t i = 0; i < addr.size(); ++i) {
            auto v = placeVariable(addr[i], "v" + std::to_string(i));
            v->setUnits("dimensionless");
            v->setInterfaceType("public");
            comps[i % 3]->addVariable(v);
            vars.push_back(v);
        }
        for (size_t i = 0; i + 1 < vars.size(); ++i) if (i % 3 != 2) Variable::addEquivalence(vars[i], vars[i + 1]); // chains of three
        UF uf = reachability(vars);
        if (layout == 0) initialiseRepresentatives(vars, uf);
        bool valid = false;
        // the dense layout is queried on the analyser model of an empty model: validating thousands of variables is not the subject
        auto am = layout == 1 ? analyse(Model::create("empty"), c, &valid) : analyse(m, c, &valid);
        CacheObs obs = probe::observeModel(am);
        int reps = layout == 1 ? 2 : 3, n = int(vars.size());
        std::set<std::string> reported;
        uint64_t wrong = 0;
        for (int pass = 0; pass < 2; ++pass) for (int i = 0; i < n; ++i) for (int j = 0; j < n; ++j) {
            int x = pass ? n - 1 - i : i, y = pass ? n - 1 - j : j;
            bool want = x == y || uf.same(x, y);
            for (int rep = 0; rep < reps; ++rep) {
                bool got = am->areEquivalentVariables(vars[x], vars[y]);
                if (got != want) {
                    ++wrong;
                    std::string sig = std::string("address:areEquivalentVariables:") + (got ? "got-true-expected-false" : "got-false-expected-true") + (distinctK == npair ? ":no-modelled-collision" : ":key-collision") + (layout ? ":dense-window" : ":spread-grid");
                    if (reported.insert(sig).second)
                        emitViolation(c, sig, {{"base", hex(b.B)}, {"x", hex(addr[x])}, {"y", hex(addr[y])}, {"got", got}, {"model_key", hex(km.K(addr[x], addr[y]))}, {"cache_key_kind", obs.keyKind}});
                }
            }
        }
        c.count("address_transitions", uint64_t(2) * n * n * reps);
        c.count("grid_pairs_judged", npair);
        c.count("address_wrong_answers", wrong);
        c.count("address_traces");
        Bind bind{c};
        for (int i = 0; i < n; ++i) for (int j = i; j < n; ++j) bind.check(obs, addr[i], addr[j]);
        if (obs.observable) {
            // formula-agnostic: every unordered pair was asked, so an injective key leaves exactly one entry per pair
            if (obs.size() == npair) c.outcome("grid:observed-real-key-injective-on-the-set");
            else { c.outcome("grid:observed-real-key-NOT-injective-on-the-set"); c.count("grid_real_key_collisions", npair > obs.size() ? npair - obs.size() : 0); }
        } else c.outcome("grid:cache-unobservable");
        ++c.judged;
        if (layout == 0) c.outcome("grid:spread:analyser-model-" + typeOf(am) + (int(am->variableCount()) == uf.classes() ? ":variables=classes" : ":variables!=classes"));
        c.outcome(std::string("grid:") + (layout ? "dense" : "spread") + (wrong ? ":answers-wrong" : ":answers-right") + (distinctK == npair ? ":model-predicts-no-collision" : ":model-predicts-collision"));
    }
    arena::unmapAll();
}
#endif // VERIF_FLAVOUR_plain

} // namespace

// =================================================================== (c) history part: id operations interleaved with edges
namespace {

template<class T, class = void> struct HasIdMaps : std::false_type {};
template<class T> struct HasIdMaps<T, std::void_t<decltype(std::declval<T &>().mMappingIdMap.size()), decltype(std::declval<T &>().mConnectionIdMap.size())>> : std::true_type {};

template<class T, class = void> struct HasRawList : std::false_type {};
template<class T> struct HasRawList<T, std::void_t<decltype(std::declval<T &>().mEquivalentVariables.size()), decltype(std::declval<T &>().mEquivalentVariables.begin()->lock())>> : std::true_type {};

// N variables.  LEAN = reduced alphabet (no 4-argument add, no connection ids, id operations on unordered pairs) so that
// five variables stay explorable; the full alphabet is used for three and four.
template<int N, bool LEAN = false>
struct IdWorld
{
    enum Kind { ADD, ADD_IDS, REMOVE, REMOVE_ALL, SET_MID, SET_CID, RM_MID, RM_CID, DESTROY };
    struct Op { Kind k; int i, j; };
    static const std::vector<Op> &ops()
    {
        static std::vector<Op> o = [] {
            std::vector<Op> r;
            for (int i = 0; i < N; ++i) for (int j = i + 1; j < N; ++j) { r.push_back({ADD, i, j}); if (!LEAN) r.push_back({ADD_IDS, i, j}); r.push_back({REMOVE, i, j}); }
            for (int i = 0; i < N; ++i) r.push_back({REMOVE_ALL, i, i});
            if (LEAN) { for (Kind k : {SET_MID, RM_MID}) for (int i = 0; i < N; ++i) for (int j = i + 1; j < N; ++j) r.push_back({k, i, j}); }
            else for (Kind k : {SET_MID, SET_CID, RM_MID, RM_CID}) for (int i = 0; i < N; ++i) for (int j = 0; j < N; ++j) if (i != j) r.push_back({k, i, j});
            for (int i = 0; i < N; ++i) r.push_back({DESTROY, i, i}); // appended last: earlier operation numbers stay valid
            return r;
        }();
        return o;
    }
    static const char *kindName(Kind k)
    {
        switch (k) {
        case ADD: return "addEquivalence";
        case ADD_IDS: return "addEquivalence-with-ids";
        case REMOVE: return "removeEquivalence";
        case REMOVE_ALL: return "removeAllEquivalences";
        case SET_MID: return "setEquivalenceMappingId";
        case SET_CID: return "setEquivalenceConnectionId";
        case RM_MID: return "removeEquivalenceMappingId";
        case RM_CID: return "removeEquivalenceConnectionId";
        case DESTROY: return "destroy";
        }
        return "?";
    }
    static int opCount() { return int(ops().size()); }
    static std::string opName(int op)
    {
        const Op &o = ops()[op];
        std::string s = kindName(o.k);
        s += "(v" + std::to_string(o.i);
        if (o.k != REMOVE_ALL && o.k != DESTROY) s += ",v" + std::to_string(o.j);
        if (o.k == ADD_IDS) s += ",\"m\",\"c\"";
        if (o.k == SET_MID) s += ",\"x\"";
        if (o.k == SET_CID) s += ",\"y\"";
        return s + ")";
    }

    // ---- real objects: one variable per component (a connection id belongs to a component pair), flat siblings
    ModelPtr m;
    std::vector<ComponentPtr> comps;
    std::vector<VariablePtr> v; // null once destroyed: the harness held the last reference
    // ---- reference: live variables, direct edges + identifiers as decorations of unordered pairs
    bool alive[N];
    bool edge[N][N] = {};
    std::string mid[N][N], cid[N][N];
    std::string lastOp = "initial";
    std::string lastRelation = "none";
    std::string lastClass = "nothing"; // edge-addition | edge-removal | id-operation | destruction: class of the last operation (part of the signature)

    IdWorld()
    {
        m = Model::create("m");
        for (int i = 0; i < N; ++i) {
            auto c = Component::create("c" + std::to_string(i));
            auto x = Variable::create("v" + std::to_string(i));
            x->setUnits("dimensionless");
            x->setInterfaceType("public");
            c->addVariable(x);
            m->addComponent(c);
            comps.push_back(c);
            v.push_back(x);
            alive[i] = true;
        }
    }
    // pruned by the reference state only: nothing can be done with a variable that no longer exists
    bool enabled(int op)
    {
        const Op &o = ops()[op];
        return alive[o.i] && alive[o.j];
    }
    UF refClasses() const
    {
        UF uf(N);
        for (int i = 0; i < N; ++i) for (int j = i + 1; j < N; ++j) if (edge[i][j]) uf.unite(i, j);
        return uf;
    }
    void setRef(std::string (&a)[N][N], int i, int j, const std::string &x) { a[i][j] = a[j][i] = x; }
    // after edges went away: a pair that is no longer linked carries no identifier
    void clearDisconnected()
    {
        UF uf = refClasses();
        for (int i = 0; i < N; ++i) for (int j = 0; j < N; ++j) if (i != j && !uf.same(i, j)) { mid[i][j].clear(); cid[i][j].clear(); }
    }
    void apply(int op, std::vector<Viol> &)
    {
        const Op &o = ops()[op];
        int i = o.i, j = o.j;
        UF before = refClasses();
        lastOp = kindName(o.k);
        lastClass = (o.k == ADD || o.k == ADD_IDS) ? "edge-addition" : (o.k == REMOVE || o.k == REMOVE_ALL) ? "edge-removal" : o.k == DESTROY ? "destruction" : "id-operation";
        lastRelation = (o.k == REMOVE_ALL || o.k == DESTROY) ? "variable" : edge[i][j] ? "direct-pair" : before.same(i, j) ? "indirect-pair" : "unconnected-pair";
        switch (o.k) {
        case ADD:
            Variable::addEquivalence(v[i], v[j]);
            if (!edge[i][j]) { edge[i][j] = edge[j][i] = true; setRef(mid, i, j, ""); setRef(cid, i, j, ""); } // a new equivalence starts without identifiers
            break;
        case ADD_IDS:
            Variable::addEquivalence(v[i], v[j], "m", "c");
            edge[i][j] = edge[j][i] = true;
            setRef(mid, i, j, "m");
            setRef(cid, i, j, "c");
            break;
        case REMOVE:
            Variable::removeEquivalence(v[i], v[j]);
            if (edge[i][j]) { edge[i][j] = edge[j][i] = false; setRef(mid, i, j, ""); setRef(cid, i, j, ""); } // the map_variables element is gone, and its ids with it
            clearDisconnected();
            break;
        case REMOVE_ALL:
            v[i]->removeAllEquivalences();
            for (int k = 0; k < N; ++k) if (edge[i][k]) { edge[i][k] = edge[k][i] = false; setRef(mid, i, k, ""); setRef(cid, i, k, ""); }
            clearDisconnected();
            break;
        case SET_MID:
            Variable::setEquivalenceMappingId(v[i], v[j], "x");
            if (before.same(i, j)) setRef(mid, i, j, "x"); // "if the two variables are not equivalent the identifier is not set"
            break;
        case SET_CID:
            Variable::setEquivalenceConnectionId(v[i], v[j], "y");
            if (before.same(i, j)) setRef(cid, i, j, "y");
            break;
        case RM_MID:
            Variable::removeEquivalenceMappingId(v[i], v[j]);
            if (before.same(i, j)) setRef(mid, i, j, "");
            break;
        case RM_CID:
            Variable::removeEquivalenceConnectionId(v[i], v[j]);
            if (before.same(i, j)) setRef(cid, i, j, "");
            break;
        case DESTROY:
            // removed from its component and the last reference dropped: the variable leaves the universe, its equivalences
            // with it; the neighbours keep an expired entry in their raw lists
            comps[i]->removeVariable(v[i]);
            v[i].reset();
            alive[i] = false;
            for (int k = 0; k < N; ++k) { edge[i][k] = edge[k][i] = false; setRef(mid, i, k, ""); setRef(cid, i, k, ""); }
            clearDisconnected();
            break;
        }
    }
    int indexOf(const VariablePtr &w) const
    {
        for (int q = 0; q < N; ++q) if (v[q] && v[q] == w) return q;
        return -1;
    }
    // hidden state (auxiliary: part of the state key only, so that stale id entries and expired list slots at every
    // position are explored as distinct states; never judged)
    template<class Impl> std::string hidden(Impl *p) const
    {
        std::string s;
        if constexpr (HasIdMaps<Impl>::value) {
            for (int k = 0; k < N; ++k) {
                if (!v[k]) { s += "."; continue; }
                auto a = p->mMappingIdMap.find(v[k]);
                auto b = p->mConnectionIdMap.find(v[k]);
                s += a == p->mMappingIdMap.end() ? "-" : "[" + a->second + "]";
                s += b == p->mConnectionIdMap.end() ? "-" : "[" + b->second + "]";
            }
            // entries about destroyed variables
            size_t stale = 0;
            for (auto &e : p->mMappingIdMap) stale += e.first.expired();
            for (auto &e : p->mConnectionIdMap) stale += e.first.expired();
            if (stale) s += "+" + std::to_string(stale) + "dead";
        }
        if constexpr (HasRawList<Impl>::value) {
            s += " raw<";
            for (auto &w : p->mEquivalentVariables) { auto sp = w.lock(); s += sp ? std::to_string(indexOf(sp)) : std::string("X"); }
            s += ">";
        }
        return s;
    }
    std::string canon()
    {
        std::string s;
        for (int i = 0; i < N; ++i) {
            if (!v[i]) { s += "v" + std::to_string(i) + " destroyed;"; continue; }
            std::vector<int> nb;
            for (size_t e = 0; e < v[i]->equivalentVariableCount(); ++e) nb.push_back(indexOf(v[i]->equivalentVariable(e)));
            std::sort(nb.begin(), nb.end());
            s += "v" + std::to_string(i) + "{";
            for (int k : nb) s += std::to_string(k) + " ";
            s += "}";
            for (int j = 0; j < N; ++j) if (i != j && v[j]) s += "(" + Variable::equivalenceMappingId(v[i], v[j]) + "|" + Variable::equivalenceConnectionId(v[i], v[j]) + ")";
            s += "h:" + hidden(v[i]->pFunc()) + ";";
        }
        return s;
    }
    json refJson() const
    {
        json e = json::array(), ids = json::array(), dead = json::array();
        for (int i = 0; i < N; ++i) if (!alive[i]) dead.push_back(i);
        for (int i = 0; i < N; ++i) for (int j = i + 1; j < N; ++j) {
            if (edge[i][j]) e.push_back({i, j});
            if (!mid[i][j].empty() || !cid[i][j].empty()) ids.push_back({{"pair", {i, j}}, {"mapping", mid[i][j]}, {"connection", cid[i][j]}});
        }
        return {{"edges", e}, {"ids", ids}, {"destroyed", dead}};
    }
    // the full oracle, evaluated in every reached state, over the live variables
    void invariant(std::vector<Viol> &out)
    {
        std::set<std::string> seen;
        bool anyDead = false;
        for (int i = 0; i < N; ++i) anyDead = anyDead || !alive[i];
        auto add = [&](const std::string &sig, json d) {
            if (!seen.insert(sig).second) return;
            d["reference"] = refJson();
            d["last_operation_on"] = lastRelation;
            d["last_operation"] = lastOp;
            out.push_back({sig + ":after-" + lastClass + (anyDead ? ":a-variable-was-destroyed" : ""), d});
        };
        for (int i = 0; i < N; ++i) if (alive[i] != (v[i] != nullptr)) { add("harness:history:liveness-bookkeeping", {{"variable", i}}); return; }
        // 1. the public neighbour lists: exactly the reference's direct edges among live variables, hence symmetric
        //    (a lists b <=> b lists a), no destroyed or unknown variable listed, nothing listed twice
        bool listed[N][N] = {};
        for (int i = 0; i < N; ++i) {
            if (!alive[i]) continue;
            for (size_t e = 0; e < v[i]->equivalentVariableCount(); ++e) {
                auto w = v[i]->equivalentVariable(e);
                int q = indexOf(w);
                if (q < 0) { add("history:equivalentVariable-lists-a-variable-outside-the-universe", {{"variable", i}, {"position", e}, {"null", w == nullptr}}); continue; }
                if (listed[i][q]) add("history:equivalentVariable-lists-a-variable-twice", {{"variable", i}, {"other", q}});
                listed[i][q] = true;
            }
        }
        for (int i = 0; i < N; ++i) for (int j = 0; j < N; ++j) {
            if (i == j || !alive[i] || !alive[j]) continue;
            if (listed[i][j] != listed[j][i] && i < j) add("history:equivalentVariable-lists-are-one-sided", {{"a", i}, {"b", j}, {"a_lists_b", listed[i][j]}, {"b_lists_a", listed[j][i]}});
            if (listed[i][j] != edge[i][j]) add("history:equivalentVariable-lists-differ-from-the-edges-added-and-removed", {{"variable", i}, {"other", j}, {"listed", listed[i][j]}});
            bool hd = v[i]->hasEquivalentVariable(v[j], false);
            if (hd != edge[i][j]) add(std::string("history:hasEquivalentVariable-direct:") + (hd ? "got-true-expected-false" : "got-false-expected-true"), {{"x", i}, {"y", j}});
        }
        // 2. both query functions against reachability over the live edges: every ordered pair, twice; the analyser model
        //    (whose cache keeps the first answer of a pair) on two fresh analyses, asked in opposite orders
        UF ref = refClasses();
        for (int pass = 0; pass < 2; ++pass) {
            auto a = Analyser::create();
            a->analyseModel(m);
            auto am = a->model();
            for (int rep = 0; rep < 2; ++rep) for (int ii = 0; ii < N; ++ii) for (int jj = 0; jj < N; ++jj) {
                int i = pass ? N - 1 - ii : ii, j = pass ? N - 1 - jj : jj;
                if (!alive[i] || !alive[j]) continue;
                bool linked = i != j && ref.same(i, j);
                bool h = v[i]->hasEquivalentVariable(v[j], true);
                bool q = am->areEquivalentVariables(v[i], v[j]);
                if (i != j && h != linked) add(std::string("history:hasEquivalentVariable:") + (h ? "got-true-expected-false" : "got-false-expected-true"), {{"x", i}, {"y", j}, {"repetition", rep}});
                if (q != (i == j || linked)) add(std::string("history:areEquivalentVariables:") + (q ? "got-true-expected-false" : "got-false-expected-true") + (i == j ? ":same-variable" : ""), {{"x", i}, {"y", j}, {"repetition", rep}, {"asked", pass ? "in-reverse-order" : "in-lexicographic-order"}});
            }
        }
        // 3. the identifier getters: "" for a pair that is not linked; otherwise the decoration last given to the pair
        for (int i = 0; i < N; ++i) for (int j = 0; j < N; ++j) {
            if (i == j || !alive[i] || !alive[j]) continue;
            std::string gm = Variable::equivalenceMappingId(v[i], v[j]), gc = Variable::equivalenceConnectionId(v[i], v[j]);
            const char *rel = edge[i][j] ? "direct-pair" : ref.same(i, j) ? "indirect-pair" : "unconnected-pair";
            if (!ref.same(i, j)) {
                if (!gm.empty()) add("history:equivalenceMappingId:pair-that-is-not-linked-has-an-id", {{"x", i}, {"y", j}, {"got", gm}});
                if (!gc.empty()) add("history:equivalenceConnectionId:pair-that-is-not-linked-has-an-id", {{"x", i}, {"y", j}, {"got", gc}});
                continue;
            }
            if (gm != mid[i][j]) add(std::string("history:equivalenceMappingId:") + rel + ":" + (gm.empty() ? "id-lost" : mid[i][j].empty() ? "id-out-of-nowhere" : "other-id"), {{"x", i}, {"y", j}, {"got", gm}, {"expected", mid[i][j]}});
            if (gc != cid[i][j]) add(std::string("history:equivalenceConnectionId:") + rel + ":" + (gc.empty() ? "id-lost" : cid[i][j].empty() ? "id-out-of-nowhere" : "other-id"), {{"x", i}, {"y", j}, {"got", gc}, {"expected", cid[i][j]}});
        }
    }
};

} // namespace

int main(int argc, char **argv)
{
    MAXN = int(envU("C18_MAXN", 4));
    if (sizeof(libcellml::Variable) != OBJ) { fprintf(stderr, "c18: sizeof(Variable) = %zu, harness assumes %llu\n", sizeof(libcellml::Variable), (unsigned long long)OBJ); return 2; }
    std::vector<Family> fs = {
        {"graph", graphCount, runGraph, [](uint64_t i) { return graphAt(i).show(); }},
        {"perm", permCount, runPerm, [](uint64_t i) { json j = permAt(i).show(); j["orders"] = "all permutations of the n*n ordered pairs"; return j; }},
        // {maxDepth, maxStates} for the quick and the thorough tier (VERIF_TIER); --depth=N overrides
        machineFamily<IdWorld<3>>("ids3", ExploreLimits{5, 2000000}, ExploreLimits{6, 2000000}),
        machineFamily<IdWorld<4>>("ids4", ExploreLimits{4, 2000000}, ExploreLimits{5, 2000000}),
        machineFamily<IdWorld<5, true>>("life5", ExploreLimits{4, 2000000}, ExploreLimits{5, 2000000}),
        {"selfcheck", [] { return uint64_t(SELF.size()); }, runSelf, [](uint64_t i) { return json{{"word_bits", SELF.at(i).W}, {"base", hex(SELF.at(i).B)}, {"bytes", SELF.at(i).S}}; }},
    };
#ifdef C18_PLACEMENT
    // a deterministic address space: the chosen windows must not be occupied by the process itself
    if (!getenv("C18_NO_REEXEC")) {
        int p = personality(0xffffffff);
        if (p != -1 && !(p & ADDR_NO_RANDOMIZE) && personality(p | ADDR_NO_RANDOMIZE) != -1) {
            setenv("C18_NO_REEXEC", "1", 1);
            execv("/proc/self/exe", argv);
        }
    }
    NBASES = std::min<uint64_t>(envU("C18_NBASES", 12), BASES.size());
    WINDOW = envU("C18_WINDOW_MIB", 64) << 20;
    WITNESS_CAP = envU("C18_WITNESS_CAP", 50);
    DENSE = envU("C18_DENSE", 1024);
    fs.push_back({"window", [] { return NBASES; }, runWindow, [](uint64_t i) {
                      json j = {{"base", hex(BASES.at(i).B)}, {"what", BASES.at(i).what}, {"window_bytes", WINDOW}, {"aligned_addresses", WINDOW / ALIGN}};
                      if (g_options.count("quad")) j["quad"] = g_options["quad"];
                      return j;
                  }});
    fs.push_back({"grid", [] { return NBASES * 2; }, runGrid, [](uint64_t i) {
                      auto a = gridAddresses(BASES.at(i / 2).B, int(i % 2));
                      return json{{"base", hex(BASES.at(i / 2).B)}, {"layout", i % 2 ? "dense: consecutive 32-byte objects" : "spread: 12 clusters x 12 strides over 64 MiB"}, {"addresses", a.size()}, {"first", hex(a.front())}, {"last", hex(a.back())}};
                  }});
#endif
    return harnessMain(argc, argv, fs);
}
