// C09(b) — the table of entry points. One Entry per (method, varied parameter). Roles:
//   TARGET  : the thing to find / remove / take / replace / query / annotate / resolve ... : classes null, never-added,
//             owner-destroyed (entities), one-past-the-end and SIZE_MAX (indices), unknown and empty (names); judged.
//   PAYLOAD : the thing being added or assigned: only null applies; judged where the method reports success (bool);
//             void setters take null as "clear" by design and are only required to survive.
//   QUERY   : no bad argument; the receiver state is what varies (e.g. isDefined() on a component outside any model).
#pragma once
#include "c09_badargs.hpp"

namespace c09b {

inline std::vector<Entry> buildEntries()
{
    std::vector<Entry> v;
    auto add = [&](const std::string &name, RK rk, Role role, Kind kind, bool judge, unsigned cm, unsigned rm, std::function<Out(Fix &, Cls)> fn) {
        v.push_back(Entry{name, rk, role, kind, judge, cm, rm, std::move(fn)});
    };
    // ------------------------------------------------------------ ComponentEntity on Model and on Component
    for (int isModel = 1; isModel >= 0; --isModel) {
        RK rk = isModel ? RK_MODEL : RK_COMP;
        unsigned rm = isModel ? R_FP : R_ALL;
        std::string P = isModel ? "Model::" : "Component::";
        auto ce = [isModel](Fix &f) -> ComponentEntityPtr { return isModel ? ComponentEntityPtr(f.rM) : ComponentEntityPtr(f.rC); };
        std::string child = isModel ? "c1" : "c2";
        add(P + "addComponent(component*)", rk, PAYLOAD, ENT, true, M_NULL, rm, [=](Fix &f, Cls c) { return B(ce(f)->addComponent(f.badComp(c))); });
        add(P + "removeComponent(index*)", rk, TARGET, IDX, true, M_IDX, rm, [=](Fix &f, Cls c) { return B(ce(f)->removeComponent(Fix::badIdx(c, ce(f)->componentCount()))); });
        add(P + "removeComponent(name*)", rk, TARGET, NAME, true, M_NAME, rm, [=](Fix &f, Cls c) { return B(ce(f)->removeComponent(Fix::badName(c), true)); });
        add(P + "removeComponent(component*)", rk, TARGET, ENT, true, M_ENT_T, rm, [=](Fix &f, Cls c) { return B(ce(f)->removeComponent(f.badComp(c), true)); });
        add(P + "containsComponent(name*)", rk, TARGET, NAME, true, M_NAME, rm, [=](Fix &f, Cls c) { return B(ce(f)->containsComponent(Fix::badName(c), true)); });
        add(P + "containsComponent(component*)", rk, TARGET, ENT, true, M_ENT_T, rm, [=](Fix &f, Cls c) { return B(ce(f)->containsComponent(f.badComp(c), true)); });
        add(P + "component(index*)", rk, TARGET, IDX, true, M_IDX, rm, [=](Fix &f, Cls c) { return P_(ce(f)->component(Fix::badIdx(c, ce(f)->componentCount()))); });
        add(P + "component(name*)", rk, TARGET, NAME, true, M_NAME, rm, [=](Fix &f, Cls c) { return P_(ce(f)->component(Fix::badName(c), true)); });
        add(P + "takeComponent(index*)", rk, TARGET, IDX, true, M_IDX, rm, [=](Fix &f, Cls c) { return P_(ce(f)->takeComponent(Fix::badIdx(c, ce(f)->componentCount()))); });
        add(P + "takeComponent(name*)", rk, TARGET, NAME, true, M_NAME, rm, [=](Fix &f, Cls c) { return P_(ce(f)->takeComponent(Fix::badName(c), true)); });
        add(P + "replaceComponent(index*,new)", rk, TARGET, IDX, true, M_IDX, rm, [=](Fix &f, Cls c) { return B(ce(f)->replaceComponent(Fix::badIdx(c, ce(f)->componentCount()), f.newComp)); });
        add(P + "replaceComponent(index,new*)", rk, PAYLOAD, ENT, true, M_NULL, rm, [=](Fix &f, Cls c) { return B(ce(f)->replaceComponent(size_t(0), f.badComp(c))); });
        add(P + "replaceComponent(name*,new)", rk, TARGET, NAME, true, M_NAME, rm, [=](Fix &f, Cls c) { return B(ce(f)->replaceComponent(Fix::badName(c), f.newComp, true)); });
        add(P + "replaceComponent(name,new*)", rk, PAYLOAD, ENT, true, M_NULL, rm, [=](Fix &f, Cls c) { return B(ce(f)->replaceComponent(child, f.badComp(c), true)); });
        add(P + "replaceComponent(old*,new)", rk, TARGET, ENT, true, M_ENT_T, rm, [=](Fix &f, Cls c) { return B(ce(f)->replaceComponent(f.badComp(c), f.newComp, true)); });
        add(P + "replaceComponent(old,new*)", rk, PAYLOAD, ENT, true, M_NULL, rm, [=](Fix &f, Cls c) { return B(ce(f)->replaceComponent(ce(f)->component(0), f.badComp(c), true)); });
        add(P + "hasAncestor(entity*)", rk, TARGET, ENT, true, M_ENT_T, rm, [=](Fix &f, Cls c) { return B(ce(f)->hasAncestor(f.badComp(c))); });
        add(P + "equals(entity*)", rk, TARGET, ENT, true, M_NULL, rm, [=](Fix &f, Cls c) { (void)c; return B(ce(f)->equals(nullptr)); });
    }
    // ------------------------------------------------------------ Model
    add("Model::addUnits(units*)", RK_MODEL, PAYLOAD, ENT, true, M_NULL, R_FP, [](Fix &f, Cls c) { return B(f.rM->addUnits(f.badUnits(c))); });
    add("Model::removeUnits(index*)", RK_MODEL, TARGET, IDX, true, M_IDX, R_FP, [](Fix &f, Cls c) { return B(f.rM->removeUnits(Fix::badIdx(c, f.rM->unitsCount()))); });
    add("Model::removeUnits(name*)", RK_MODEL, TARGET, NAME, true, M_NAME, R_FP, [](Fix &f, Cls c) { return B(f.rM->removeUnits(Fix::badName(c))); });
    add("Model::removeUnits(units*)", RK_MODEL, TARGET, ENT, true, M_ENT_T, R_FP, [](Fix &f, Cls c) { return B(f.rM->removeUnits(f.badUnits(c))); });
    add("Model::hasUnits(name*)", RK_MODEL, TARGET, NAME, true, M_NAME, R_FP, [](Fix &f, Cls c) { return B(f.rM->hasUnits(Fix::badName(c))); });
    add("Model::hasUnits(units*)", RK_MODEL, TARGET, ENT, true, M_ENT_T, R_FP, [](Fix &f, Cls c) { return B(f.rM->hasUnits(f.badUnits(c))); });
    add("Model::units(index*)", RK_MODEL, TARGET, IDX, true, M_IDX, R_FP, [](Fix &f, Cls c) { return P_(f.rM->units(Fix::badIdx(c, f.rM->unitsCount()))); });
    add("Model::units(name*)", RK_MODEL, TARGET, NAME, true, M_NAME, R_FP, [](Fix &f, Cls c) { return P_(f.rM->units(Fix::badName(c))); });
    add("Model::takeUnits(index*)", RK_MODEL, TARGET, IDX, true, M_IDX, R_FP, [](Fix &f, Cls c) { return P_(f.rM->takeUnits(Fix::badIdx(c, f.rM->unitsCount()))); });
    add("Model::takeUnits(name*)", RK_MODEL, TARGET, NAME, true, M_NAME, R_FP, [](Fix &f, Cls c) { return P_(f.rM->takeUnits(Fix::badName(c))); });
    add("Model::replaceUnits(index*,new)", RK_MODEL, TARGET, IDX, true, M_IDX, R_FP, [](Fix &f, Cls c) { return B(f.rM->replaceUnits(Fix::badIdx(c, f.rM->unitsCount()), f.newUnits)); });
    add("Model::replaceUnits(index,new*)", RK_MODEL, PAYLOAD, ENT, true, M_NULL, R_FP, [](Fix &f, Cls c) { return B(f.rM->replaceUnits(size_t(0), f.badUnits(c))); });
    add("Model::replaceUnits(name*,new)", RK_MODEL, TARGET, NAME, true, M_NAME, R_FP, [](Fix &f, Cls c) { return B(f.rM->replaceUnits(Fix::badName(c), f.newUnits)); });
    add("Model::replaceUnits(name,new*)", RK_MODEL, PAYLOAD, ENT, true, M_NULL, R_FP, [](Fix &f, Cls c) { return B(f.rM->replaceUnits(std::string("mm"), f.badUnits(c))); });
    add("Model::replaceUnits(old*,new)", RK_MODEL, TARGET, ENT, true, M_ENT_T, R_FP, [](Fix &f, Cls c) { return B(f.rM->replaceUnits(f.badUnits(c), f.newUnits)); });
    add("Model::replaceUnits(old,new*)", RK_MODEL, PAYLOAD, ENT, true, M_NULL, R_FP, [](Fix &f, Cls c) { return B(f.rM->replaceUnits(f.rM->units(0), f.badUnits(c))); });
    add("Model::linkUnits()", RK_MODEL, QUERY, NOARG, false, M_NONE, R_FP, [](Fix &f, Cls) { return B(f.rM->linkUnits()); });
    add("Model::hasUnlinkedUnits()", RK_MODEL, QUERY, NOARG, false, M_NONE, R_FP, [](Fix &f, Cls) { return B(f.rM->hasUnlinkedUnits()); });
    add("Model::hasImports()", RK_MODEL, QUERY, NOARG, false, M_NONE, R_FP, [](Fix &f, Cls) { return B(f.rM->hasImports()); });
    add("Model::hasUnresolvedImports()", RK_MODEL, QUERY, NOARG, false, M_NONE, R_FP, [](Fix &f, Cls) { return B(f.rM->hasUnresolvedImports()); });
    add("Model::isDefined()", RK_MODEL, QUERY, NOARG, false, M_NONE, R_FP, [](Fix &f, Cls) { return B(f.rM->isDefined()); });
    add("Model::clone()", RK_MODEL, QUERY, NOARG, false, M_NONE, R_FP, [](Fix &f, Cls) { return P_(f.rM->clone()); });
    add("Model::fixVariableInterfaces()", RK_MODEL, QUERY, NOARG, false, M_NONE, R_FP, [](Fix &f, Cls) { return B(f.rM->fixVariableInterfaces()); });
    add("Model::clean()", RK_MODEL, QUERY, NOARG, false, M_NONE, R_FP, [](Fix &f, Cls) { f.rM->clean(); return V(); });
    add("Model::importRequirements()", RK_MODEL, QUERY, NOARG, false, M_NONE, R_FP, [](Fix &f, Cls) { return N(f.rM->importRequirements().size()); });
    // ------------------------------------------------------------ Component
    add("Component::addVariable(variable*)", RK_COMP, PAYLOAD, ENT, true, M_NULL, R_ALL, [](Fix &f, Cls c) { return B(f.rC->addVariable(f.badVar(c))); });
    add("Component::removeVariable(index*)", RK_COMP, TARGET, IDX, true, M_IDX, R_ALL, [](Fix &f, Cls c) { return B(f.rC->removeVariable(Fix::badIdx(c, f.rC->variableCount()))); });
    add("Component::removeVariable(name*)", RK_COMP, TARGET, NAME, true, M_NAME, R_ALL, [](Fix &f, Cls c) { return B(f.rC->removeVariable(Fix::badName(c))); });
    add("Component::removeVariable(variable*)", RK_COMP, TARGET, ENT, true, M_ENT_T, R_ALL, [](Fix &f, Cls c) { return B(f.rC->removeVariable(f.badVar(c))); });
    add("Component::variable(index*)", RK_COMP, TARGET, IDX, true, M_IDX, R_ALL, [](Fix &f, Cls c) { return P_(f.rC->variable(Fix::badIdx(c, f.rC->variableCount()))); });
    add("Component::variable(name*)", RK_COMP, TARGET, NAME, true, M_NAME, R_ALL, [](Fix &f, Cls c) { return P_(f.rC->variable(Fix::badName(c))); });
    add("Component::takeVariable(index*)", RK_COMP, TARGET, IDX, true, M_IDX, R_ALL, [](Fix &f, Cls c) { return P_(f.rC->takeVariable(Fix::badIdx(c, f.rC->variableCount()))); });
    add("Component::takeVariable(name*)", RK_COMP, TARGET, NAME, true, M_NAME, R_ALL, [](Fix &f, Cls c) { return P_(f.rC->takeVariable(Fix::badName(c))); });
    add("Component::hasVariable(variable*)", RK_COMP, TARGET, ENT, true, M_ENT_T, R_ALL, [](Fix &f, Cls c) { return B(f.rC->hasVariable(f.badVar(c))); });
    add("Component::hasVariable(name*)", RK_COMP, TARGET, NAME, true, M_NAME, R_ALL, [](Fix &f, Cls c) { return B(f.rC->hasVariable(Fix::badName(c))); });
    add("Component::addReset(reset*)", RK_COMP, PAYLOAD, ENT, true, M_NULL, R_ALL, [](Fix &f, Cls c) { return B(f.rC->addReset(f.badReset(c))); });
    add("Component::takeReset(index*)", RK_COMP, TARGET, IDX, true, M_IDX, R_ALL, [](Fix &f, Cls c) { return P_(f.rC->takeReset(Fix::badIdx(c, f.rC->resetCount()))); });
    add("Component::removeReset(index*)", RK_COMP, TARGET, IDX, true, M_IDX, R_ALL, [](Fix &f, Cls c) { return B(f.rC->removeReset(Fix::badIdx(c, f.rC->resetCount()))); });
    add("Component::removeReset(reset*)", RK_COMP, TARGET, ENT, true, M_ENT_T, R_ALL, [](Fix &f, Cls c) { return B(f.rC->removeReset(f.badReset(c))); });
    add("Component::reset(index*)", RK_COMP, TARGET, IDX, true, M_IDX, R_ALL, [](Fix &f, Cls c) { return P_(f.rC->reset(Fix::badIdx(c, f.rC->resetCount()))); });
    add("Component::hasReset(reset*)", RK_COMP, TARGET, ENT, true, M_ENT_T, R_ALL, [](Fix &f, Cls c) { return B(f.rC->hasReset(f.badReset(c))); });
    add("Component::setSourceComponent(importSource*,name)", RK_COMP, PAYLOAD, ENT, false, M_NULL, R_ALL, [](Fix &f, Cls) { ImportSourcePtr n; f.rC->setSourceComponent(n, "x"); return V(); });
    add("Component::setImportSource(importSource*)", RK_COMP, PAYLOAD, ENT, false, M_NULL, R_ALL, [](Fix &f, Cls) { f.rC->setImportSource(nullptr); return V(); });
    add("Component::isDefined()", RK_COMP, QUERY, NOARG, false, M_NONE, R_ALL, [](Fix &f, Cls) { return B(f.rC->isDefined()); });
    add("Component::isResolved()", RK_COMP, QUERY, NOARG, false, M_NONE, R_ALL, [](Fix &f, Cls) { return B(f.rC->isResolved()); });
    add("Component::requiresImports()", RK_COMP, QUERY, NOARG, false, M_NONE, R_ALL, [](Fix &f, Cls) { return B(f.rC->requiresImports()); });
    add("Component::clone()", RK_COMP, QUERY, NOARG, false, M_NONE, R_ALL, [](Fix &f, Cls) { return P_(f.rC->clone()); });
    add("Component(imported)::isDefined()", RK_COMP, QUERY, NOARG, false, M_NONE, R_P | 4u, [](Fix &f, Cls) { return B(f.ci->isDefined()); });
    add("Component(imported)::isResolved()", RK_COMP, QUERY, NOARG, false, M_NONE, R_P | 4u, [](Fix &f, Cls) { return B(f.ci->isResolved()); });
    // ------------------------------------------------------------ Variable
    // static pair operations: the varied parameter is marked *, the other is the receiver-state variable
    struct PairOp { const char *name; Role role; bool judge; unsigned cm; std::function<Out(const VariablePtr &, const VariablePtr &)> fn; };
    std::vector<PairOp> pairOps = {
        {"Variable::addEquivalence", PAYLOAD, true, M_NULL, [](const VariablePtr &p, const VariablePtr &q) { return B(Variable::addEquivalence(p, q)); }},
        {"Variable::addEquivalence(,,mappingId,connectionId)", PAYLOAD, true, M_NULL, [](const VariablePtr &p, const VariablePtr &q) { return B(Variable::addEquivalence(p, q, "mid9", "cid9")); }},
        {"Variable::removeEquivalence", TARGET, true, M_ENT_T, [](const VariablePtr &p, const VariablePtr &q) { return B(Variable::removeEquivalence(p, q)); }},
        {"Variable::setEquivalenceMappingId", TARGET, true, M_ENT_T, [](const VariablePtr &p, const VariablePtr &q) { Variable::setEquivalenceMappingId(p, q, "mid9"); return V(); }},
        {"Variable::setEquivalenceConnectionId", TARGET, true, M_ENT_T, [](const VariablePtr &p, const VariablePtr &q) { Variable::setEquivalenceConnectionId(p, q, "cid9"); return V(); }},
        {"Variable::equivalenceMappingId", TARGET, true, M_ENT_T, [](const VariablePtr &p, const VariablePtr &q) { return S(Variable::equivalenceMappingId(p, q)); }},
        {"Variable::equivalenceConnectionId", TARGET, true, M_ENT_T, [](const VariablePtr &p, const VariablePtr &q) { return S(Variable::equivalenceConnectionId(p, q)); }},
        {"Variable::removeEquivalenceMappingId", TARGET, true, M_ENT_T, [](const VariablePtr &p, const VariablePtr &q) { Variable::removeEquivalenceMappingId(p, q); return V(); }},
        {"Variable::removeEquivalenceConnectionId", TARGET, true, M_ENT_T, [](const VariablePtr &p, const VariablePtr &q) { Variable::removeEquivalenceConnectionId(p, q); return V(); }},
    };
    for (auto &po : pairOps) {
        auto fn = po.fn;
        add(std::string(po.name) + "(variable1*,variable2)", RK_VAR, po.role, ENT, po.judge, po.cm, R_VAR, [fn](Fix &f, Cls c) { return fn(f.badVar(c), f.rV); });
        add(std::string(po.name) + "(variable1,variable2*)", RK_VAR, po.role, ENT, po.judge, po.cm, R_VAR, [fn](Fix &f, Cls c) { return fn(f.rV, f.badVar(c)); });
    }
    add("Variable::equivalentVariable(index*)", RK_VAR, TARGET, IDX, true, M_IDX, R_VAR, [](Fix &f, Cls c) { return P_(f.rV->equivalentVariable(Fix::badIdx(c, f.rV->equivalentVariableCount()))); });
    add("Variable::hasEquivalentVariable(variable*)", RK_VAR, TARGET, ENT, true, M_ENT_T, R_VAR, [](Fix &f, Cls c) { return B(f.rV->hasEquivalentVariable(f.badVar(c), false)); });
    add("Variable::hasEquivalentVariable(variable*,indirect)", RK_VAR, TARGET, ENT, true, M_ENT_T, R_VAR, [](Fix &f, Cls c) { return B(f.rV->hasEquivalentVariable(f.badVar(c), true)); });
    add("Variable::equivalentVariable(i) below count", RK_VAR, QUERY, NOARG, true, M_NONE, R_VAR, [](Fix &f, Cls) {
        bool bad = false; // a listed equivalent variable is never null / destroyed
        for (size_t i = 0; i < f.rV->equivalentVariableCount(); ++i) bad = bad || f.rV->equivalentVariable(i) == nullptr;
        return B(bad);
    });
    add("Variable::removeAllEquivalences()", RK_VAR, QUERY, NOARG, false, M_NONE, R_VAR, [](Fix &f, Cls) { f.rV->removeAllEquivalences(); return V(); });
    add("Variable::setUnits(units*)", RK_VAR, PAYLOAD, ENT, false, M_NULL, R_VAR, [](Fix &f, Cls) { f.rV->setUnits(UnitsPtr()); return V(); });
    add("Variable::setInitialValue(variable*)", RK_VAR, PAYLOAD, ENT, false, M_NULL, R_VAR, [](Fix &f, Cls) { f.rV->setInitialValue(VariablePtr()); return V(); });
    add("Variable::equals(entity*)", RK_VAR, TARGET, ENT, true, M_NULL, R_VAR, [](Fix &f, Cls) { return B(f.rV->equals(nullptr)); });
    add("Variable::hasAncestor(entity*)", RK_VAR, TARGET, ENT, true, M_ENT_T, R_VAR, [](Fix &f, Cls c) { return B(f.rV->hasAncestor(f.badComp(c))); });
    add("Variable::clone()", RK_VAR, QUERY, NOARG, false, M_NONE, R_VAR, [](Fix &f, Cls) { return P_(f.rV->clone()); });
    // ------------------------------------------------------------ Units
    add("Units::unitAttributeReference(index*)", RK_UNITS, TARGET, IDX, true, M_IDX, R_ALL, [](Fix &f, Cls c) { return S(f.rU->unitAttributeReference(Fix::badIdx(c, f.rU->unitCount()))); });
    add("Units::setUnitAttributeReference(index*,ref)", RK_UNITS, TARGET, IDX, true, M_IDX, R_ALL, [](Fix &f, Cls c) { f.rU->setUnitAttributeReference(Fix::badIdx(c, f.rU->unitCount()), "second"); return V(); });
    add("Units::unitAttributePrefix(index*)", RK_UNITS, TARGET, IDX, true, M_IDX, R_ALL, [](Fix &f, Cls c) { return S(f.rU->unitAttributePrefix(Fix::badIdx(c, f.rU->unitCount()))); });
    add("Units::unitAttributeExponent(index*)", RK_UNITS, TARGET, IDX, false, M_IDX, R_ALL, [](Fix &f, Cls c) { return D(f.rU->unitAttributeExponent(Fix::badIdx(c, f.rU->unitCount()))); });
    add("Units::unitAttributeMultiplier(index*)", RK_UNITS, TARGET, IDX, false, M_IDX, R_ALL, [](Fix &f, Cls c) { return D(f.rU->unitAttributeMultiplier(Fix::badIdx(c, f.rU->unitCount()))); });
    add("Units::unitAttributes(index*,...)", RK_UNITS, TARGET, IDX, true, M_IDX, R_ALL, [](Fix &f, Cls c) { std::string r, p, id; double e = 0, m = 0; f.rU->unitAttributes(Fix::badIdx(c, f.rU->unitCount()), r, p, e, m, id); return S(r); });
    add("Units::unitAttributes(reference*,...)", RK_UNITS, TARGET, NAME, true, M_NAME, R_ALL, [](Fix &f, Cls c) { std::string p, id; double e = 0, m = 0; f.rU->unitAttributes(Fix::badName(c), p, e, m, id); return S(p + id); });
    add("Units::removeUnit(index*)", RK_UNITS, TARGET, IDX, true, M_IDX, R_ALL, [](Fix &f, Cls c) { return B(f.rU->removeUnit(Fix::badIdx(c, f.rU->unitCount()))); });
    add("Units::removeUnit(reference*)", RK_UNITS, TARGET, NAME, true, M_NAME, R_ALL, [](Fix &f, Cls c) { return B(f.rU->removeUnit(Fix::badName(c))); });
    add("Units::setUnitId(index*,id)", RK_UNITS, TARGET, IDX, true, M_IDX, R_ALL, [](Fix &f, Cls c) { return B(f.rU->setUnitId(Fix::badIdx(c, f.rU->unitCount()), "newid")); });
    add("Units::unitId(index*)", RK_UNITS, TARGET, IDX, true, M_IDX, R_ALL, [](Fix &f, Cls c) { return S(f.rU->unitId(Fix::badIdx(c, f.rU->unitCount()))); });
    add("Units::setSourceUnits(importSource*,name)", RK_UNITS, PAYLOAD, ENT, false, M_NULL, R_ALL, [](Fix &f, Cls) { ImportSourcePtr n; f.rU->setSourceUnits(n, "x"); return V(); });
    add("Units::scalingFactor(units1*,units2)", RK_UNITS, PAYLOAD, ENT, true, M_NULL, R_ALL, [](Fix &f, Cls) { return D(Units::scalingFactor(nullptr, f.rU)); });
    add("Units::scalingFactor(units1,units2*)", RK_UNITS, PAYLOAD, ENT, true, M_NULL, R_ALL, [](Fix &f, Cls) { return D(Units::scalingFactor(f.rU, nullptr)); });
    add("Units::compatible(units1*,units2)", RK_UNITS, PAYLOAD, ENT, true, M_NULL, R_ALL, [](Fix &f, Cls) { return B(Units::compatible(nullptr, f.rU)); });
    add("Units::compatible(units1,units2*)", RK_UNITS, PAYLOAD, ENT, true, M_NULL, R_ALL, [](Fix &f, Cls) { return B(Units::compatible(f.rU, nullptr)); });
    add("Units::equivalent(units1*,units2)", RK_UNITS, PAYLOAD, ENT, true, M_NULL, R_ALL, [](Fix &f, Cls) { return B(Units::equivalent(nullptr, f.rU)); });
    add("Units::equivalent(units1,units2*)", RK_UNITS, PAYLOAD, ENT, true, M_NULL, R_ALL, [](Fix &f, Cls) { return B(Units::equivalent(f.rU, nullptr)); });
    add("Units::equals(entity*)", RK_UNITS, TARGET, ENT, true, M_NULL, R_ALL, [](Fix &f, Cls) { return B(f.rU->equals(nullptr)); });
    add("Units::isBaseUnit()", RK_UNITS, QUERY, NOARG, false, M_NONE, R_ALL, [](Fix &f, Cls) { return B(f.rU->isBaseUnit()); });
    add("Units::isDefined()", RK_UNITS, QUERY, NOARG, false, M_NONE, R_ALL, [](Fix &f, Cls) { return B(f.rU->isDefined()); });
    add("Units::isResolved()", RK_UNITS, QUERY, NOARG, false, M_NONE, R_ALL, [](Fix &f, Cls) { return B(f.rU->isResolved()); });
    add("Units::requiresImports()", RK_UNITS, QUERY, NOARG, false, M_NONE, R_ALL, [](Fix &f, Cls) { return B(f.rU->requiresImports()); });
    add("Units::clone()", RK_UNITS, QUERY, NOARG, false, M_NONE, R_ALL, [](Fix &f, Cls) { return P_(f.rU->clone()); });
    add("Units(imported)::isDefined()", RK_UNITS, QUERY, NOARG, false, M_NONE, R_P | 4u, [](Fix &f, Cls) { return B(f.ui->isDefined()); });
    add("Units(imported)::requiresImports()", RK_UNITS, QUERY, NOARG, false, M_NONE, R_P | 4u, [](Fix &f, Cls) { return B(f.ui->requiresImports()); });
    add("Units(user-referencing)::isDefined()", RK_UNITS, QUERY, NOARG, false, M_NONE, R_ALL, [](Fix &f, Cls) { auto u = Units::create("uses"); u->addUnit("mm"); if (f.m) f.m->addUnits(u); return B(u->isDefined()); });
    // ------------------------------------------------------------ Reset, ImportSource
    add("Reset::setVariable(variable*)", RK_RESET, PAYLOAD, ENT, false, M_NULL, R_ALL, [](Fix &f, Cls) { f.rR->setVariable(nullptr); return V(); });
    add("Reset::setTestVariable(variable*)", RK_RESET, PAYLOAD, ENT, false, M_NULL, R_ALL, [](Fix &f, Cls) { f.rR->setTestVariable(nullptr); return V(); });
    add("Reset::equals(entity*)", RK_RESET, TARGET, ENT, true, M_NULL, R_ALL, [](Fix &f, Cls) { return B(f.rR->equals(nullptr)); });
    add("Reset::hasAncestor(entity*)", RK_RESET, TARGET, ENT, true, M_ENT_T, R_ALL, [](Fix &f, Cls c) { return B(f.rR->hasAncestor(f.badComp(c))); });
    add("Reset::clone()", RK_RESET, QUERY, NOARG, false, M_NONE, R_ALL, [](Fix &f, Cls) { return P_(f.rR->clone()); });
    add("ImportSource::setModel(model*)", RK_IS, PAYLOAD, ENT, false, M_NULL, R_FP, [](Fix &f, Cls) { f.rIs->setModel(nullptr); return V(); });
    add("ImportSource::equals(entity*)", RK_IS, TARGET, ENT, true, M_NULL, R_FP, [](Fix &f, Cls) { return B(f.rIs->equals(nullptr)); });
    add("ImportSource::clone()", RK_IS, QUERY, NOARG, false, M_NONE, R_FP, [](Fix &f, Cls) { return P_(f.rIs->clone()); });
    add("Units::setImportSource(importSource*)", RK_UNITS, PAYLOAD, ENT, false, M_NULL, R_ALL, [](Fix &f, Cls) { f.rU->setImportSource(nullptr); return V(); });
    // ------------------------------------------------------------ AnalyserEquationAst (payload setters; null is the documented "none")
    add("AnalyserEquationAst::setVariable(variable*)", RK_SERVICE, PAYLOAD, ENT, false, M_NULL, R_F, [](Fix &, Cls) { auto n = AnalyserEquationAst::create(); n->setVariable(nullptr); return P_(n->variable()); });
    add("AnalyserEquationAst::setParent(parent*)", RK_SERVICE, PAYLOAD, ENT, false, M_NULL, R_F, [](Fix &, Cls) { auto n = AnalyserEquationAst::create(); n->setParent(nullptr); return P_(n->parent()); });
    add("AnalyserEquationAst::setLeftChild(child*)", RK_SERVICE, PAYLOAD, ENT, false, M_NULL, R_F, [](Fix &, Cls) { auto n = AnalyserEquationAst::create(); n->setLeftChild(nullptr); n->swapLeftAndRightChildren(); return S(Generator::equationCode(n)); });
    add("AnalyserEquationAst::setRightChild(child*)", RK_SERVICE, PAYLOAD, ENT, false, M_NULL, R_F, [](Fix &, Cls) { auto n = AnalyserEquationAst::create(); n->setRightChild(nullptr); return S(Generator::equationCode(n)); });
    // ------------------------------------------------------------ UnitsItem / VariablePair
    add("UnitsItem::create(units*,index)", RK_SERVICE, TARGET, ENT, true, M_NULL, R_F, [](Fix &, Cls) { auto ui = UnitsItem::create(nullptr, 0); return B(ui && ui->isValid()); });
    add("UnitsItem::create(units,index*)", RK_UNITS, TARGET, IDX, true, M_IDX, R_ALL, [](Fix &f, Cls c) { auto ui = UnitsItem::create(f.rU, Fix::badIdx(c, f.rU->unitCount())); return B(ui && ui->isValid()); });
    add("VariablePair::create(variable1*,variable2)", RK_VAR, TARGET, ENT, true, M_NULL, R_VAR, [](Fix &f, Cls) { auto vp = VariablePair::create(nullptr, f.rV); return B(vp && vp->isValid()); });
    add("VariablePair::create(variable1,variable2*)", RK_VAR, TARGET, ENT, true, M_NULL, R_VAR, [](Fix &f, Cls) { auto vp = VariablePair::create(f.rV, nullptr); return B(vp && vp->isValid()); });

    // ------------------------------------------------------------ Annotator
    {
        struct Get { const char *name; std::function<bool(Annotator &, const std::string &)> one; std::function<bool(Annotator &, const std::string &, size_t)> idx; const char *validId; };
        std::vector<Get> gets = {
            {"item", [](Annotator &a, const std::string &id) { auto i = a.item(id); return i && i->type() != CellmlElementType::UNDEFINED; }, [](Annotator &a, const std::string &id, size_t k) { auto i = a.item(id, k); return i && i->type() != CellmlElementType::UNDEFINED; }, "c1id"},
            {"component", [](Annotator &a, const std::string &id) { return a.component(id) != nullptr; }, [](Annotator &a, const std::string &id, size_t k) { return a.component(id, k) != nullptr; }, "c1id"},
            {"componentEncapsulation", [](Annotator &a, const std::string &id) { return a.componentEncapsulation(id) != nullptr; }, [](Annotator &a, const std::string &id, size_t k) { return a.componentEncapsulation(id, k) != nullptr; }, "c1enc"},
            {"encapsulation", [](Annotator &a, const std::string &id) { return a.encapsulation(id) != nullptr; }, [](Annotator &a, const std::string &id, size_t k) { return a.encapsulation(id, k) != nullptr; }, "encid"},
            {"variable", [](Annotator &a, const std::string &id) { return a.variable(id) != nullptr; }, [](Annotator &a, const std::string &id, size_t k) { return a.variable(id, k) != nullptr; }, "va"},
            {"reset", [](Annotator &a, const std::string &id) { return a.reset(id) != nullptr; }, [](Annotator &a, const std::string &id, size_t k) { return a.reset(id, k) != nullptr; }, "r1"},
            {"model", [](Annotator &a, const std::string &id) { return a.model(id) != nullptr; }, [](Annotator &a, const std::string &id, size_t k) { return a.model(id, k) != nullptr; }, "mid"},
            {"importSource", [](Annotator &a, const std::string &id) { return a.importSource(id) != nullptr; }, [](Annotator &a, const std::string &id, size_t k) { return a.importSource(id, k) != nullptr; }, "imp1"},
            {"units", [](Annotator &a, const std::string &id) { return a.units(id) != nullptr; }, [](Annotator &a, const std::string &id, size_t k) { return a.units(id, k) != nullptr; }, "u1"},
            {"mapVariables", [](Annotator &a, const std::string &id) { return a.mapVariables(id) != nullptr; }, [](Annotator &a, const std::string &id, size_t k) { return a.mapVariables(id, k) != nullptr; }, "map1"},
            {"connection", [](Annotator &a, const std::string &id) { return a.connection(id) != nullptr; }, [](Annotator &a, const std::string &id, size_t k) { return a.connection(id, k) != nullptr; }, "con1"},
            {"unitsItem", [](Annotator &a, const std::string &id) { return a.unitsItem(id) != nullptr; }, [](Annotator &a, const std::string &id, size_t k) { return a.unitsItem(id, k) != nullptr; }, "ui1"},
            {"testValue", [](Annotator &a, const std::string &id) { return a.testValue(id) != nullptr; }, [](Annotator &a, const std::string &id, size_t k) { return a.testValue(id, k) != nullptr; }, "tv1"},
            {"resetValue", [](Annotator &a, const std::string &id) { return a.resetValue(id) != nullptr; }, [](Annotator &a, const std::string &id, size_t k) { return a.resetValue(id, k) != nullptr; }, "rv1"},
        };
        for (auto &g : gets) {
            auto one = g.one;
            auto idx = g.idx;
            std::string vid = g.validId;
            add(std::string("Annotator::") + g.name + "(id*)", RK_ANNOT, TARGET, NAME, true, M_NAME, R_ALL, [one](Fix &f, Cls c) { return B(one(*f.annot, Fix::badName(c))); });
            add(std::string("Annotator::") + g.name + "(id,index*)", RK_ANNOT, TARGET, IDX, true, M_IDX, R_ALL, [idx, vid](Fix &f, Cls c) { return B(idx(*f.annot, vid, Fix::badIdx(c, f.annot->itemCount(vid)))); });
        }
    }
    add("Annotator::isUnique(id*)", RK_ANNOT, TARGET, NAME, true, M_NAME, R_ALL, [](Fix &f, Cls c) { return B(f.annot->isUnique(Fix::badName(c))); });
    add("Annotator::items(id*)", RK_ANNOT, TARGET, NAME, true, M_NAME, R_ALL, [](Fix &f, Cls c) { return N(f.annot->items(Fix::badName(c)).size()); });
    add("Annotator::itemCount(id*)", RK_ANNOT, TARGET, NAME, true, M_NAME, R_ALL, [](Fix &f, Cls c) { return N(f.annot->itemCount(Fix::badName(c))); });
    add("Annotator::setModel(model*)", RK_ANNOT, PAYLOAD, ENT, false, M_NULL, R_ALL, [](Fix &f, Cls) { f.annot->setModel(nullptr); return V(); });
    add("Annotator::assignId(item*)", RK_ANNOT, TARGET, ENT, true, M_NULL, R_ALL, [](Fix &f, Cls) { return S(f.annot->assignId(AnyCellmlElementPtr())); });
    add("Annotator::assignId(item{undefined}*)", RK_ANNOT, TARGET, ENT, true, M_NULL, R_ALL, [](Fix &f, Cls) { return S(f.annot->assignId(AnyCellmlElement::AnyCellmlElementImpl::create())); });
    add("Annotator::assignId(model*)", RK_ANNOT, TARGET, ENT, true, M_NULL | (1u << PARENTLESS), R_ALL, [](Fix &f, Cls c) { return S(f.annot->assignId(f.badModel(c))); });
    add("Annotator::assignId(model*,ENCAPSULATION)", RK_ANNOT, TARGET, ENT, true, M_NULL | (1u << PARENTLESS), R_ALL, [](Fix &f, Cls c) { return S(f.annot->assignId(f.badModel(c), CellmlElementType::ENCAPSULATION)); });
    add("Annotator::assignId(component*)", RK_ANNOT, TARGET, ENT, true, M_ENT_T, R_ALL, [](Fix &f, Cls c) { return S(f.annot->assignId(f.badComp(c))); });
    add("Annotator::assignId(component*,COMPONENT_REF)", RK_ANNOT, TARGET, ENT, true, M_ENT_T, R_ALL, [](Fix &f, Cls c) { return S(f.annot->assignId(f.badComp(c), CellmlElementType::COMPONENT_REF)); });
    add("Annotator::assignId(importSource*)", RK_ANNOT, TARGET, ENT, true, M_NULL | (1u << PARENTLESS), R_ALL, [](Fix &f, Cls c) { return S(f.annot->assignId(f.badIs(c))); });
    add("Annotator::assignId(reset*)", RK_ANNOT, TARGET, ENT, true, M_ENT_T, R_ALL, [](Fix &f, Cls c) { return S(f.annot->assignId(f.badReset(c))); });
    add("Annotator::assignId(reset*,TEST_VALUE)", RK_ANNOT, TARGET, ENT, true, M_ENT_T, R_ALL, [](Fix &f, Cls c) { return S(f.annot->assignId(f.badReset(c), CellmlElementType::TEST_VALUE)); });
    add("Annotator::assignId(units*)", RK_ANNOT, TARGET, ENT, true, M_ENT_T, R_ALL, [](Fix &f, Cls c) { return S(f.annot->assignId(f.badUnits(c))); });
    add("Annotator::assignId(unitsItem*)", RK_ANNOT, TARGET, ENT, true, M_ENT_T, R_ALL, [](Fix &f, Cls c) { return S(f.annot->assignId(c == NUL ? UnitsItemPtr() : UnitsItem::create(f.badUnits(c), 0))); });
    add("Annotator::assignId(units*,index)", RK_ANNOT, TARGET, ENT, true, M_ENT_T, R_ALL, [](Fix &f, Cls c) { return S(f.annot->assignId(f.badUnits(c), size_t(0))); });
    add("Annotator::assignId(units,index*)", RK_ANNOT, TARGET, IDX, true, M_IDX, R_ALL, [](Fix &f, Cls c) { return S(f.annot->assignId(f.mm, Fix::badIdx(c, f.mm->unitCount()))); });
    add("Annotator::assignId(variable*)", RK_ANNOT, TARGET, ENT, true, M_ENT_T, R_ALL, [](Fix &f, Cls c) { return S(f.annot->assignId(f.badVar(c))); });
    add("Annotator::assignId(variablePair*)", RK_ANNOT, TARGET, ENT, true, M_ENT_T, R_ALL, [](Fix &f, Cls c) { return S(f.annot->assignId(c == NUL ? VariablePairPtr() : VariablePair::create(f.badVar(c), f.a))); });
    add("Annotator::assignId(variable1*,variable2)", RK_ANNOT, TARGET, ENT, true, M_ENT_T, R_ALL, [](Fix &f, Cls c) { return S(f.annot->assignId(f.badVar(c), f.x)); });
    add("Annotator::assignId(variable1,variable2*)", RK_ANNOT, TARGET, ENT, true, M_ENT_T, R_ALL, [](Fix &f, Cls c) { return S(f.annot->assignId(f.a, f.badVar(c))); });
    add("Annotator::assignId(variable1*,variable2,CONNECTION)", RK_ANNOT, TARGET, ENT, true, M_ENT_T, R_ALL, [](Fix &f, Cls c) { return S(f.annot->assignId(f.badVar(c), f.x, CellmlElementType::CONNECTION)); });
    add("Annotator::assignAllIds(model*)", RK_ANNOT, TARGET, ENT, true, M_NULL, R_ALL, [](Fix &f, Cls) { ModelPtr n; return B(f.annot->assignAllIds(n)); });
    add("Annotator::clearAllIds(model*)", RK_ANNOT, TARGET, ENT, true, M_NULL, R_ALL, [](Fix &f, Cls) { ModelPtr n; f.annot->clearAllIds(n); return V(); });
    add("Annotator::assignAllIds()", RK_ANNOT, QUERY, NOARG, false, M_NONE, R_ALL, [](Fix &f, Cls) { return B(f.annot->assignAllIds()); });
    add("Annotator::assignIds(type)", RK_ANNOT, QUERY, NOARG, false, M_NONE, R_ALL, [](Fix &f, Cls) { return B(f.annot->assignIds(CellmlElementType::VARIABLE)); });
    add("Annotator::clearAllIds()", RK_ANNOT, QUERY, NOARG, false, M_NONE, R_ALL, [](Fix &f, Cls) { f.annot->clearAllIds(); return V(); });
    add("Annotator::ids()", RK_ANNOT, QUERY, NOARG, false, M_NONE, R_ALL, [](Fix &f, Cls) { return N(f.annot->ids().size()); });
    add("Annotator::duplicateIds()", RK_ANNOT, QUERY, NOARG, false, M_NONE, R_ALL, [](Fix &f, Cls) { return N(f.annot->duplicateIds().size()); });
    add("Annotator::model()", RK_ANNOT, QUERY, NOARG, false, M_NONE, R_ALL, [](Fix &f, Cls) { return P_(f.annot->model()); });
    // ------------------------------------------------------------ Importer
    add("Importer::flattenModel(model*)", RK_IMP, TARGET, ENT, true, M_NULL, R_FP, [](Fix &f, Cls) { return P_(f.imp->flattenModel(nullptr)); });
    add("Importer::resolveImports(model*,path)", RK_IMP, TARGET, ENT, true, M_NULL, R_FP, [](Fix &f, Cls) { ModelPtr n; return B(f.imp->resolveImports(n, "/nonexistent/")); });
    add("Importer::clearImports(model*)", RK_IMP, TARGET, ENT, true, M_NULL, R_FP, [](Fix &f, Cls) { ModelPtr n; f.imp->clearImports(n); return V(); });
    add("Importer::library(key*)", RK_IMP, TARGET, NAME, true, M_NAME, R_FP, [](Fix &f, Cls c) { return P_(f.imp->library(Fix::badName(c))); });
    add("Importer::library(index*)", RK_IMP, TARGET, IDX, true, M_IDX, R_FP, [](Fix &f, Cls c) { return P_(f.imp->library(Fix::badIdx(c, f.imp->libraryCount()))); });
    add("Importer::key(index*)", RK_IMP, TARGET, IDX, true, M_IDX, R_FP, [](Fix &f, Cls c) { return S(f.imp->key(Fix::badIdx(c, f.imp->libraryCount()))); });
    add("Importer::addModel(model*,key)", RK_IMP, PAYLOAD, ENT, true, M_NULL, R_FP, [](Fix &f, Cls) { return B(f.imp->addModel(nullptr, "new_key.cellml")); });
    add("Importer::replaceModel(model*,key)", RK_IMP, PAYLOAD, ENT, true, M_NULL, R_FP, [](Fix &f, Cls) { return B(f.imp->replaceModel(nullptr, "other.cellml")); });
    add("Importer::replaceModel(model,key*)", RK_IMP, TARGET, NAME, true, M_NAME, R_FP, [](Fix &f, Cls c) { return B(f.imp->replaceModel(f.otherModel, Fix::badName(c))); });
    add("Importer::addImportSource(importSource*)", RK_IMP, PAYLOAD, ENT, true, M_NULL, R_FP, [](Fix &f, Cls) { return B(f.imp->addImportSource(nullptr)); });
    add("Importer::importSource(index*)", RK_IMP, TARGET, IDX, true, M_IDX, R_FP, [](Fix &f, Cls c) { return P_(f.imp->importSource(Fix::badIdx(c, f.imp->importSourceCount()))); });
    add("Importer::removeImportSource(index*)", RK_IMP, TARGET, IDX, true, M_IDX, R_FP, [](Fix &f, Cls c) { return B(f.imp->removeImportSource(Fix::badIdx(c, f.imp->importSourceCount()))); });
    add("Importer::removeImportSource(importSource*)", RK_IMP, TARGET, ENT, true, M_NULL | (1u << PARENTLESS), R_FP, [](Fix &f, Cls c) { return B(f.imp->removeImportSource(f.badIs(c))); });
    add("Importer::hasImportSource(importSource*)", RK_IMP, TARGET, ENT, true, M_NULL | (1u << PARENTLESS), R_FP, [](Fix &f, Cls c) { return B(f.imp->hasImportSource(f.badIs(c))); });
    add("Importer::flattenModel(model-with-unresolved-imports)", RK_IMP, QUERY, NOARG, false, M_NONE, R_FP, [](Fix &f, Cls) { return P_(f.imp->flattenModel(f.m)); });
    add("Importer::resolveImports(model,unknown-path)", RK_IMP, QUERY, NOARG, false, M_NONE, R_FP, [](Fix &f, Cls) { return B(f.imp->resolveImports(f.m, "/nonexistent/")); });
    // ------------------------------------------------------------ Analyser and external variables
    add("Analyser::analyseModel(model*)", RK_ANA, TARGET, ENT, true, M_NULL, R_ALL, [](Fix &f, Cls) { f.ana->analyseModel(nullptr); return Out{f.ana->issueCount() > 0, std::to_string(f.ana->issueCount()) + " issues"}; });
    add("Analyser::addExternalVariable(externalVariable*)", RK_ANA, PAYLOAD, ENT, true, M_NULL, R_ALL, [](Fix &f, Cls) { return B(f.ana->addExternalVariable(nullptr)); });
    add("Analyser::removeExternalVariable(index*)", RK_ANA, TARGET, IDX, true, M_IDX, R_ALL, [](Fix &f, Cls c) { return B(f.ana->removeExternalVariable(Fix::badIdx(c, f.ana->externalVariableCount()))); });
    add("Analyser::removeExternalVariable(externalVariable*)", RK_ANA, TARGET, ENT, true, M_NULL | (1u << PARENTLESS), R_ALL, [](Fix &f, Cls c) { return B(f.ana->removeExternalVariable(c == NUL ? nullptr : AnalyserExternalVariable::create(f.naVar))); });
    add("Analyser::removeExternalVariable(model*,component,variable)", RK_ANA, TARGET, ENT, true, M_NULL | (1u << PARENTLESS), R_ALL, [](Fix &f, Cls c) { return B(f.ana->removeExternalVariable(f.badModel(c), "main", "k")); });
    add("Analyser::removeExternalVariable(model,component*,variable)", RK_ANA, TARGET, NAME, true, M_NAME, R_ALL, [](Fix &f, Cls c) { return B(f.ana->removeExternalVariable(f.am, Fix::badName(c), "k")); });
    add("Analyser::removeExternalVariable(model,component,variable*)", RK_ANA, TARGET, NAME, true, M_NAME, R_ALL, [](Fix &f, Cls c) { return B(f.ana->removeExternalVariable(f.am, "main", Fix::badName(c))); });
    add("Analyser::containsExternalVariable(externalVariable*)", RK_ANA, TARGET, ENT, true, M_NULL | (1u << PARENTLESS), R_ALL, [](Fix &f, Cls c) { return B(f.ana->containsExternalVariable(c == NUL ? nullptr : AnalyserExternalVariable::create(f.naVar))); });
    add("Analyser::containsExternalVariable(model*,component,variable)", RK_ANA, TARGET, ENT, true, M_NULL | (1u << PARENTLESS), R_ALL, [](Fix &f, Cls c) { return B(f.ana->containsExternalVariable(f.badModel(c), "main", "k")); });
    add("Analyser::containsExternalVariable(model,component*,variable)", RK_ANA, TARGET, NAME, true, M_NAME, R_ALL, [](Fix &f, Cls c) { return B(f.ana->containsExternalVariable(f.am, Fix::badName(c), "k")); });
    add("Analyser::externalVariable(index*)", RK_ANA, TARGET, IDX, true, M_IDX, R_ALL, [](Fix &f, Cls c) { return P_(f.ana->externalVariable(Fix::badIdx(c, f.ana->externalVariableCount()))); });
    add("Analyser::externalVariable(model*,component,variable)", RK_ANA, TARGET, ENT, true, M_NULL | (1u << PARENTLESS), R_ALL, [](Fix &f, Cls c) { return P_(f.ana->externalVariable(f.badModel(c), "main", "k")); });
    add("Analyser::externalVariable(model,component,variable*)", RK_ANA, TARGET, NAME, true, M_NAME, R_ALL, [](Fix &f, Cls c) { return P_(f.ana->externalVariable(f.am, "main", Fix::badName(c))); });
    // an external variable built on a bad variable, registered, then the (valid) model analysed
    add("Analyser::analyseModel(model) with externalVariable(variable*)", RK_ANA, TARGET, ENT, false, M_ENT_T, R_P, [](Fix &f, Cls c) {
        f.ana->addExternalVariable(AnalyserExternalVariable::create(f.badVar(c)));
        f.ana->analyseModel(f.am);
        return B(f.ana->errorCount() == 0);
    });
    add("Analyser::analyseModel(model) with externalVariable dependency(variable*)", RK_ANA, TARGET, ENT, false, M_ENT_T, R_P, [](Fix &f, Cls c) {
        f.ev->addDependency(f.badVar(c));
        f.ana->analyseModel(f.am);
        return B(f.ana->errorCount() == 0);
    });
    add("AnalyserExternalVariable::create(variable*)", RK_SERVICE, PAYLOAD, ENT, false, M_NULL, R_F, [](Fix &, Cls) { auto e = AnalyserExternalVariable::create(nullptr); return P_(e->variable()); });
    // the dependency is a payload (the thing being added): null is judged; a variable outside the model is refused when the
    // external variable's own variable is in a model, and is not judged otherwise (both then have "no model")
    add("AnalyserExternalVariable::addDependency(variable*)", RK_EV, PAYLOAD, ENT, true, M_NULL, R_ALL, [](Fix &f, Cls c) { return B(f.ev->addDependency(f.badVar(c))); });
    add("AnalyserExternalVariable::addDependency(variable outside the model*)", RK_EV, TARGET, ENT, true, (1u << PARENTLESS) | (1u << OWNER_DESTROYED), R_P, [](Fix &f, Cls c) { return B(f.ev->addDependency(f.badVar(c))); });
    add("AnalyserExternalVariable::addDependency(variable without model*) on variable without model", RK_EV, PAYLOAD, ENT, false, (1u << PARENTLESS) | (1u << OWNER_DESTROYED), R_F | 4u, [](Fix &f, Cls c) { return B(f.ev->addDependency(f.badVar(c))); });
    add("AnalyserExternalVariable(null variable)::addDependency(variable)", RK_EV, QUERY, NOARG, false, M_NONE, R_ALL, [](Fix &f, Cls) { auto e = AnalyserExternalVariable::create(nullptr); return B(e->addDependency(f.a)); });
    add("AnalyserExternalVariable::removeDependency(index*)", RK_EV, TARGET, IDX, true, M_IDX, R_ALL, [](Fix &f, Cls c) { return B(f.ev->removeDependency(Fix::badIdx(c, f.ev->dependencyCount()))); });
    add("AnalyserExternalVariable::removeDependency(variable*)", RK_EV, TARGET, ENT, true, M_ENT_T, R_ALL, [](Fix &f, Cls c) { return B(f.ev->removeDependency(f.badVar(c))); });
    add("AnalyserExternalVariable::removeDependency(model*,component,variable)", RK_EV, TARGET, ENT, true, M_NULL | (1u << PARENTLESS), R_ALL, [](Fix &f, Cls c) { return B(f.ev->removeDependency(f.badModel(c), "main", "x")); });
    add("AnalyserExternalVariable::removeDependency(model,component*,variable)", RK_EV, TARGET, NAME, true, M_NAME, R_ALL, [](Fix &f, Cls c) { return B(f.ev->removeDependency(f.am, Fix::badName(c), "x")); });
    add("AnalyserExternalVariable::removeDependency(model,component,variable*)", RK_EV, TARGET, NAME, true, M_NAME, R_ALL, [](Fix &f, Cls c) { return B(f.ev->removeDependency(f.am, "main", Fix::badName(c))); });
    add("AnalyserExternalVariable::containsDependency(variable*)", RK_EV, TARGET, ENT, true, M_ENT_T, R_ALL, [](Fix &f, Cls c) { return B(f.ev->containsDependency(f.badVar(c))); });
    add("AnalyserExternalVariable::containsDependency(model*,component,variable)", RK_EV, TARGET, ENT, true, M_NULL | (1u << PARENTLESS), R_ALL, [](Fix &f, Cls c) { return B(f.ev->containsDependency(f.badModel(c), "main", "x")); });
    add("AnalyserExternalVariable::containsDependency(model,component,variable*)", RK_EV, TARGET, NAME, true, M_NAME, R_ALL, [](Fix &f, Cls c) { return B(f.ev->containsDependency(f.am, "main", Fix::badName(c))); });
    add("AnalyserExternalVariable::dependency(index*)", RK_EV, TARGET, IDX, true, M_IDX, R_ALL, [](Fix &f, Cls c) { return P_(f.ev->dependency(Fix::badIdx(c, f.ev->dependencyCount()))); });
    add("AnalyserExternalVariable::dependency(model*,component,variable)", RK_EV, TARGET, ENT, true, M_NULL | (1u << PARENTLESS), R_ALL, [](Fix &f, Cls c) { return P_(f.ev->dependency(f.badModel(c), "main", "x")); });
    add("AnalyserExternalVariable::dependency(model,component,variable*)", RK_EV, TARGET, NAME, true, M_NAME, R_ALL, [](Fix &f, Cls c) { return P_(f.ev->dependency(f.am, "main", Fix::badName(c))); });
    // ------------------------------------------------------------ AnalyserModel / AnalyserVariable / AnalyserEquation
    add("AnalyserModel::areEquivalentVariables(variable1*,variable2)", RK_AM, TARGET, ENT, true, M_ENT_T, R_ALL, [](Fix &f, Cls c) { return B(f.amodel->areEquivalentVariables(f.badVar(c), f.ev ? f.ev->variable() : f.a)); });
    add("AnalyserModel::areEquivalentVariables(variable1,variable2*)", RK_AM, TARGET, ENT, true, M_ENT_T, R_ALL, [](Fix &f, Cls c) { return B(f.amodel->areEquivalentVariables(f.ev ? f.ev->variable() : f.a, f.badVar(c))); });
    add("AnalyserModel::state(index*)", RK_AM, TARGET, IDX, true, M_IDX, R_ALL, [](Fix &f, Cls c) { return P_(f.amodel->state(Fix::badIdx(c, f.amodel->stateCount()))); });
    add("AnalyserModel::variable(index*)", RK_AM, TARGET, IDX, true, M_IDX, R_ALL, [](Fix &f, Cls c) { return P_(f.amodel->variable(Fix::badIdx(c, f.amodel->variableCount()))); });
    add("AnalyserModel::equation(index*)", RK_AM, TARGET, IDX, true, M_IDX, R_ALL, [](Fix &f, Cls c) { return P_(f.amodel->equation(Fix::badIdx(c, f.amodel->equationCount()))); });
    add("AnalyserVariable::equation(index*)", RK_AM, TARGET, IDX, true, M_IDX, R_P | 4u, [](Fix &f, Cls c) { auto s = f.amodel->state(0); if (!s) return Out{true, "no-state"}; return P_(s->equation(Fix::badIdx(c, s->equationCount()))); });
    add("AnalyserEquation::dependency(index*)", RK_AM, TARGET, IDX, true, M_IDX, R_P | 4u, [](Fix &f, Cls c) { auto e = f.amodel->equation(0); if (!e) return Out{true, "no-equation"}; return P_(e->dependency(Fix::badIdx(c, e->dependencyCount()))); });
    add("AnalyserEquation::nlaSibling(index*)", RK_AM, TARGET, IDX, true, M_IDX, R_P | 4u, [](Fix &f, Cls c) { auto e = f.amodel->equation(0); if (!e) return Out{true, "no-equation"}; return P_(e->nlaSibling(Fix::badIdx(c, e->nlaSiblingCount()))); });
    add("AnalyserEquation::variable(index*)", RK_AM, TARGET, IDX, true, M_IDX, R_P | 4u, [](Fix &f, Cls c) { auto e = f.amodel->equation(0); if (!e) return Out{true, "no-equation"}; return P_(e->variable(Fix::badIdx(c, e->variableCount()))); });
    // ------------------------------------------------------------ Generator, Printer, Validator, Parser, Logger
    add("Generator::setModel(model*) then code", RK_GEN, PAYLOAD, ENT, false, M_NULL, R_ALL, [](Fix &f, Cls) { f.gen->setModel(nullptr); return S(f.gen->interfaceCode() + f.gen->implementationCode()); });
    add("Generator::setProfile(profile*) then code", RK_GEN, PAYLOAD, ENT, false, M_NULL, R_ALL, [](Fix &f, Cls) { f.gen->setProfile(nullptr); return S(f.gen->interfaceCode() + f.gen->implementationCode()); });
    add("Generator::code after model's source destroyed", RK_GEN, QUERY, NOARG, false, M_NONE, R_ALL, [](Fix &f, Cls) { return S(f.gen->interfaceCode() + f.gen->implementationCode()); });
    add("Generator::equationCode(ast*)", RK_GEN, TARGET, ENT, true, M_NULL, R_F, [](Fix &, Cls) { return S(Generator::equationCode(nullptr)); });
    add("Generator::equationCode(ast,profile*)", RK_GEN, PAYLOAD, ENT, false, M_NULL, R_P, [](Fix &f, Cls) { auto e = f.amodel->equation(0); return S(Generator::equationCode(e ? e->ast() : nullptr, nullptr)); });
    add("Printer::printModel(model*)", RK_SERVICE, TARGET, ENT, true, M_NULL, R_F, [](Fix &f, Cls) { auto p = Printer::create(); auto s = p->printModel(nullptr); f.ctx->logger(p, "printer"); return Out{s.empty() || p->issueCount() > 0, s.empty() ? "empty" : "text"}; });
    add("Printer::printModel(model*,autoIds)", RK_SERVICE, TARGET, ENT, true, M_NULL, R_F, [](Fix &f, Cls) { auto p = Printer::create(); auto s = p->printModel(nullptr, true); f.ctx->logger(p, "printer"); return Out{s.empty() || p->issueCount() > 0, s.empty() ? "empty" : "text"}; });
    add("Validator::validateModel(model*)", RK_SERVICE, TARGET, ENT, true, M_NULL, R_F, [](Fix &f, Cls) { auto p = Validator::create(); p->validateModel(nullptr); f.ctx->logger(p, "validator"); return Out{p->issueCount() > 0, std::to_string(p->issueCount()) + " issues"}; });
    add("Parser::parseModel(text*)", RK_SERVICE, TARGET, NAME, true, 1u << EMPTY_NAME, R_F, [](Fix &f, Cls) { auto p = Parser::create(); auto m = p->parseModel(""); f.ctx->logger(p, "parser"); return Out{p->issueCount() > 0, m ? "model" : "null"}; });
    add("Logger::issue/error/warning/message(index*)", RK_SERVICE, TARGET, IDX, true, M_IDX, R_F, [](Fix &f, Cls c) {
        auto p = Validator::create();
        p->validateModel(f.m);
        bool any = p->issue(Fix::badIdx(c, p->issueCount())) || p->error(Fix::badIdx(c, p->errorCount())) || p->warning(Fix::badIdx(c, p->warningCount())) || p->message(Fix::badIdx(c, p->messageCount()));
        return B(any);
    });
    return v;
}

} // namespace c09b
