// C09(b) — bad-argument matrix: (entry point) x (argument class) x (receiver state), index-addressed.
// Oracle: no crash / sanitizer report (decided by the supervisor); for judged entries additionally the call returns
// false / null / empty or logs an issue, and the canonical state of every object of the fixture is unchanged.
#pragma once
#include "common.hpp"
#include "anycellmlelement_p.h"

namespace c09b {
using namespace vf;

enum Cls { NUL, PARENTLESS, OWNER_DESTROYED, PAST_END, IDX_MAX, UNKNOWN_NAME, EMPTY_NAME, NONE, NCLS };
inline const char *clsName(int c)
{
    static const char *N[] = {"null", "never-added", "owner-destroyed", "index-one-past-end", "index-SIZE_MAX", "unknown-name", "empty-name", "no-argument"};
    return N[c];
}
enum Recv { FRESH, POPULATED, OWNER_GONE, PARTNER_GONE, NRECV };
inline const char *recvName(int r)
{
    static const char *N[] = {"fresh", "populated", "owner-destroyed", "equivalent-variable-destroyed"};
    return N[r];
}
enum Role { TARGET, PAYLOAD, QUERY };
enum Kind { ENT, IDX, NAME, NOARG };
// receiver kinds: which object the receiver state applies to
enum RK { RK_MODEL, RK_COMP, RK_VAR, RK_UNITS, RK_RESET, RK_IS, RK_ANNOT, RK_IMP, RK_ANA, RK_EV, RK_AM, RK_GEN, RK_SERVICE, NRK };

constexpr unsigned M_ENT_T = (1u << NUL) | (1u << PARENTLESS) | (1u << OWNER_DESTROYED);
constexpr unsigned M_NULL = 1u << NUL;
constexpr unsigned M_IDX = (1u << PAST_END) | (1u << IDX_MAX);
constexpr unsigned M_NAME = (1u << UNKNOWN_NAME) | (1u << EMPTY_NAME);
constexpr unsigned M_NONE = 1u << NONE;
constexpr unsigned R_ALL = 7, R_FP = 3, R_F = 1, R_P = 2;
constexpr unsigned R_VAR = 15; // variables additionally: populated, then the equivalent variable was destroyed (an expired weak entry remains)

struct Out
{
    bool benign = true;
    std::string ret;
};
inline Out B(bool r) { return {!r, r ? "true" : "false"}; }
template<class P> Out P_(const P &p) { return {p == nullptr, p ? "non-null" : "null"}; }
inline Out S(const std::string &s) { return {s.empty(), "\"" + safe(s, 60) + "\""}; }
inline Out N(size_t n) { return {n == 0, std::to_string(n)}; }
inline Out D(double d) { return {d == 0.0 || std::isnan(d), dbl(d)}; }
inline Out V() { return {true, "void"}; }

static const char *ANALYSABLE = R"(<?xml version="1.0" encoding="UTF-8"?>
<model xmlns="http://www.cellml.org/cellml/2.0#" name="am">
  <component name="main">
    <variable name="t" units="second" interface="public"/>
    <variable name="x" units="dimensionless" initial_value="1" interface="public"/>
    <variable name="k" units="dimensionless" interface="public"/>
    <math xmlns="http://www.w3.org/1998/Math/MathML" xmlns:cellml="http://www.cellml.org/cellml/2.0#">
      <apply><eq/><apply><diff/><bvar><ci>t</ci></bvar><ci>x</ci></apply><ci>k</ci></apply>
      <apply><eq/><ci>k</ci><cn cellml:units="dimensionless">2</cn></apply>
    </math>
  </component>
  <component name="other"><variable name="k2" units="dimensionless" interface="public"/></component>
  <connection component_1="main" component_2="other"><map_variables variable_1="k" variable_2="k2"/></connection>
</model>)";

struct Fix
{
    Ctx *ctx = nullptr;
    Recv recv = FRESH;
    // the populated model
    ModelPtr m;
    ComponentPtr c1, c2, ci;
    VariablePtr a, b, x;
    ResetPtr r;
    UnitsPtr mm, base, ui;
    ImportSourcePtr is;
    // donors for the bad classes
    ComponentPtr naComp, odComp;
    VariablePtr naVar, odVar;
    UnitsPtr naUnits, odUnits;
    ResetPtr naReset, odReset;
    ImportSourcePtr naIs;
    ModelPtr otherModel; // a model that is not the receiver's
    // valid payloads
    ComponentPtr newComp;
    VariablePtr newVar;
    UnitsPtr newUnits;
    ResetPtr newReset;
    // receivers
    ModelPtr rM;
    ComponentPtr rC;
    VariablePtr rV;
    UnitsPtr rU;
    ResetPtr rR;
    ImportSourcePtr rIs;
    AnnotatorPtr annot;
    ImporterPtr imp;
    ModelPtr lib;
    AnalyserPtr ana;
    ModelPtr am;
    AnalyserExternalVariablePtr ev;
    AnalyserModelPtr amodel;
    GeneratorPtr gen;
    std::vector<LoggerPtr> loggers;

    void buildMain()
    {
        m = Model::create("main");
        m->setId("mid");
        m->setEncapsulationId("encid");
        mm = Units::create("mm");
        mm->setId("u1");
        mm->addUnit("metre", "milli", 1.0, 1.0, "ui1");
        base = Units::create("base");
        m->addUnits(mm);
        m->addUnits(base);
        c1 = Component::create("c1");
        c1->setId("c1id");
        c1->setEncapsulationId("c1enc");
        c2 = Component::create("c2");
        c2->setId("c2id");
        a = Variable::create("a");
        a->setUnits(mm);
        a->setId("va");
        a->setInterfaceType("public_and_private");
        b = Variable::create("b");
        b->setUnits("second");
        x = Variable::create("x");
        x->setUnits(mm);
        x->setInterfaceType("public");
        c1->addVariable(a);
        c1->addVariable(b);
        c2->addVariable(x);
        r = Reset::create(1);
        r->setId("r1");
        r->setVariable(a);
        r->setTestVariable(b);
        r->setTestValue("<math xmlns=\"http://www.w3.org/1998/Math/MathML\"><cn xmlns:cellml=\"http://www.cellml.org/cellml/2.0#\" cellml:units=\"second\">1</cn></math>");
        r->setTestValueId("tv1");
        r->setResetValue("<math xmlns=\"http://www.w3.org/1998/Math/MathML\"><cn xmlns:cellml=\"http://www.cellml.org/cellml/2.0#\" cellml:units=\"mm\">2</cn></math>");
        r->setResetValueId("rv1");
        c1->addReset(r);
        m->addComponent(c1);
        c1->addComponent(c2);
        Variable::addEquivalence(a, x, "map1", "con1");
        is = ImportSource::create();
        is->setUrl("other.cellml");
        is->setId("imp1");
        ci = Component::create("ci");
        ci->setImportSource(is);
        ci->setImportReference("cref");
        m->addComponent(ci);
        ui = Units::create("ui");
        ui->setImportSource(is);
        ui->setImportReference("uref");
        m->addUnits(ui);
    }
    void buildDonors()
    {
        naComp = Component::create("never_added");
        naComp->addVariable(Variable::create("q"));
        naVar = Variable::create("never_added_v");
        naVar->setUnits("volt");
        naUnits = Units::create("never_added_u");
        naUnits->addUnit("kelvin");
        naReset = Reset::create(77);
        naIs = ImportSource::create();
        naIs->setUrl("never.cellml");
        {
            auto gone = Model::create("gone");
            odComp = Component::create("od_c");
            odComp->addVariable(Variable::create("w"));
            auto od2 = Component::create("od_c2");
            odVar = Variable::create("od_v");
            odVar->setUnits("ampere");
            odReset = Reset::create(55);
            od2->addVariable(odVar);
            od2->addReset(odReset);
            odUnits = Units::create("od_u");
            odUnits->addUnit("candela");
            gone->addComponent(odComp);
            gone->addComponent(od2);
            gone->addUnits(odUnits);
        } // the model and od_c2 die here
        otherModel = Model::create("other_model");
        otherModel->addComponent(Component::create("oc"));
        newComp = Component::create("fresh_new_c");
        newVar = Variable::create("fresh_new_v");
        newUnits = Units::create("fresh_new_u");
        newReset = Reset::create(9);
    }
    // receiver preparation; false => this receiver state does not exist for this receiver kind
    bool prepare(RK rk, Recv rv)
    {
        recv = rv;
        buildMain();
        buildDonors();
        if (rv == PARTNER_GONE) {
            if (rk != RK_VAR) return false;
            rV = a;
            c2->removeVariable(x); // a <-> x were equivalent; x is destroyed without any equivalence call on a
            x.reset();
            return true;
        }
        switch (rk) {
        case RK_MODEL:
            if (rv == OWNER_GONE) return false;
            rM = rv == FRESH ? Model::create("fresh_m") : m;
            break;
        case RK_COMP:
            rC = rv == FRESH ? Component::create("fresh_c") : c1;
            if (rv == OWNER_GONE) m.reset();
            break;
        case RK_VAR:
            rV = rv == FRESH ? Variable::create("fresh_v") : a;
            if (rv == OWNER_GONE) { m.reset(); c1.reset(); }
            break;
        case RK_UNITS:
            rU = rv == FRESH ? Units::create("fresh_u") : mm;
            if (rv == OWNER_GONE) m.reset();
            break;
        case RK_RESET:
            rR = rv == FRESH ? Reset::create() : r;
            if (rv == OWNER_GONE) { m.reset(); c1.reset(); }
            break;
        case RK_IS:
            if (rv == OWNER_GONE) return false;
            rIs = rv == FRESH ? ImportSource::create() : is;
            break;
        case RK_ANNOT:
            annot = Annotator::create();
            loggers.push_back(annot);
            if (rv != FRESH) annot->setModel(m);
            if (rv == OWNER_GONE) { c1.reset(); c2.reset(); ci.reset(); m.reset(); } // entities held by the fixture survive, parentless
            break;
        case RK_IMP:
            if (rv == OWNER_GONE) return false;
            imp = Importer::create();
            loggers.push_back(imp);
            if (rv == POPULATED) {
                lib = Model::create("lib");
                lib->addComponent(Component::create("cref"));
                imp->addModel(lib, "other.cellml");
                imp->addImportSource(is);
            }
            break;
        case RK_ANA: case RK_EV: case RK_AM: case RK_GEN: {
            ana = Analyser::create();
            loggers.push_back(ana);
            gen = Generator::create();
            if (rv == FRESH) {
                if (rk == RK_EV) ev = AnalyserExternalVariable::create(Variable::create("lonely"));
                if (rk == RK_AM) { amodel = ana->model(); if (!amodel) return false; }
                break;
            }
            auto p = Parser::create();
            am = p->parseModel(ANALYSABLE);
            ctx->logger(p, "parser");
            auto k = am->component("main")->variable("k");
            ev = AnalyserExternalVariable::create(k);
            ev->addDependency(am->component("main")->variable("x"));
            if (rk != RK_AM && rk != RK_GEN) ana->addExternalVariable(ev);
            ana->analyseModel(am);
            ctx->logger(ana, "analyser");
            amodel = ana->model();
            gen->setModel(amodel);
            if (rv == OWNER_GONE) am.reset();
            break;
        }
        case RK_SERVICE:
            if (rv == OWNER_GONE) return false;
            break;
        default: break;
        }
        return true;
    }
    // ---- bad arguments
    ComponentPtr badComp(Cls c) const { return c == PARENTLESS ? naComp : c == OWNER_DESTROYED ? odComp : nullptr; }
    VariablePtr badVar(Cls c) const { return c == PARENTLESS ? naVar : c == OWNER_DESTROYED ? odVar : nullptr; }
    UnitsPtr badUnits(Cls c) const { return c == PARENTLESS ? naUnits : c == OWNER_DESTROYED ? odUnits : nullptr; }
    ResetPtr badReset(Cls c) const { return c == PARENTLESS ? naReset : c == OWNER_DESTROYED ? odReset : nullptr; }
    ImportSourcePtr badIs(Cls c) const { return c == PARENTLESS ? naIs : nullptr; }
    ModelPtr badModel(Cls c) const { return c == PARENTLESS ? otherModel : nullptr; }
    static size_t badIdx(Cls c, size_t count) { return c == IDX_MAX ? SIZE_MAX : count; }
    static std::string badName(Cls c) { return c == UNKNOWN_NAME ? "no_such_name" : ""; }

    // ---- canonical state of everything the fixture can reach
    static std::string ent(const char *label, const ParentedEntityPtr &e, const std::string &body)
    {
        if (!e) return std::string(" ") + label + "=<null>";
        auto p = e->parent();
        auto pn = std::dynamic_pointer_cast<NamedEntity>(p);
        return std::string(" ") + label + "={" + body + " parent=" + (p ? (pn ? pn->name() : "?") : "<none>") + "}";
    }
    static std::string coherent(const ModelPtr &mo)
    {
        std::string bad;
        std::function<void(const ComponentEntityPtr &, int)> walk = [&](const ComponentEntityPtr &ce, int depth) {
            for (size_t i = 0; i < ce->componentCount() && depth < 16; ++i) {
                auto c = ce->component(i);
                if (!c) { bad += "null-child;"; continue; }
                if (c->parent() != ce) bad += "component " + c->name() + " has other parent;";
                for (size_t v = 0; v < c->variableCount(); ++v) if (!c->variable(v) || c->variable(v)->parent() != c) bad += "variable has other parent;";
                for (size_t v = 0; v < c->resetCount(); ++v) if (!c->reset(v) || c->reset(v)->parent() != c) bad += "reset has other parent;";
                walk(c, depth + 1);
            }
        };
        walk(mo, 0);
        for (size_t i = 0; i < mo->unitsCount(); ++i) if (!mo->units(i) || mo->units(i)->parent() != mo) bad += "units has other parent;";
        return bad.empty() ? "coherent" : bad;
    }
    std::string canon() const
    {
        CanonOpt o;
        o.sort = false;
        std::string s;
        auto mod = [&](const char *l, const ModelPtr &mo) { s += std::string(" ") + l + "=" + (mo ? canonModel(mo, o) + "[" + coherent(mo) + "]" : std::string("<null>")); };
        mod("m", m);
        mod("rM", rM == m ? nullptr : rM);
        mod("other", otherModel);
        mod("lib", lib);
        mod("am", am);
        auto comp = [&](const char *l, const ComponentPtr &c) { s += ent(l, c, c ? canonComponent(c, o) : ""); };
        comp("c1", c1); comp("c2", c2); comp("ci", ci); comp("rC", rC == c1 ? nullptr : rC); comp("naComp", naComp); comp("odComp", odComp); comp("newComp", newComp);
        auto var = [&](const char *l, const VariablePtr &v) {
            std::string e;
            if (v) for (size_t i = 0; i < v->equivalentVariableCount(); ++i) { auto w = v->equivalentVariable(i); e += " eq:" + (w ? w->name() + "/" + Variable::equivalenceMappingId(v, w) + "/" + Variable::equivalenceConnectionId(v, w) : std::string("<null>")); }
            s += ent(l, v, v ? canonVariable(v, o) + e : "");
        };
        var("a", a); var("b", b); var("x", x); var("rV", rV == a ? nullptr : rV); var("naVar", naVar); var("odVar", odVar); var("newVar", newVar);
        auto un = [&](const char *l, const UnitsPtr &u) { s += ent(l, u, u ? canonUnits(u, o) : ""); };
        un("mm", mm); un("base", base); un("ui", ui); un("rU", rU == mm ? nullptr : rU); un("naUnits", naUnits); un("odUnits", odUnits); un("newUnits", newUnits);
        auto rs = [&](const char *l, const ResetPtr &x_) { s += ent(l, x_, x_ ? canonReset(x_, o) : ""); };
        rs("r", r); rs("rR", rR == r ? nullptr : rR); rs("naReset", naReset); rs("odReset", odReset); rs("newReset", newReset);
        auto isrc = [&](const char *l, const ImportSourcePtr &i) { s += std::string(" ") + l + "=" + (i ? i->url() + "#" + i->id() + (i->hasModel() ? "+model" : "") : std::string("<null>")); };
        isrc("is", is); isrc("rIs", rIs == is ? nullptr : rIs); isrc("naIs", naIs);
        if (annot) s += std::string(" annot.hasModel=") + (annot->hasModel() ? "1" : "0");
        if (imp) {
            s += " imp.lib=" + std::to_string(imp->libraryCount()) + "[";
            for (size_t i = 0; i < imp->libraryCount() && i < 8; ++i) { auto l = imp->library(i); s += imp->key(i) + ":" + (l ? l->name() : std::string("<NULL-MODEL>")) + ","; }
            s += "] imp.is=" + std::to_string(imp->importSourceCount()) + "[";
            for (size_t i = 0; i < imp->importSourceCount() && i < 8; ++i) { auto l = imp->importSource(i); s += (l ? l->url() : std::string("<NULL>")) + ","; }
            s += "]";
        }
        auto evs = [&](const AnalyserExternalVariablePtr &e) {
            if (!e) return std::string("<NULL>");
            std::string t = (e->variable() ? e->variable()->name() : std::string("<null-var>")) + "(";
            for (size_t i = 0; i < e->dependencyCount() && i < 8; ++i) { auto d = e->dependency(i); t += (d ? d->name() : std::string("<NULL>")) + ","; }
            return t + ")";
        };
        if (ana) {
            s += " ana.ev=" + std::to_string(ana->externalVariableCount()) + "[";
            for (size_t i = 0; i < ana->externalVariableCount() && i < 8; ++i) s += evs(ana->externalVariable(i)) + ",";
            s += "]";
        }
        if (ev) s += " ev=" + evs(ev);
        return s;
    }
    size_t issueTotal() const
    {
        size_t n = 0;
        for (auto &l : loggers) n += l->issueCount();
        return n;
    }
};

struct Entry
{
    std::string name;
    RK rk;
    Role role;
    Kind kind;
    bool judge;         // benign return + unchanged state required
    unsigned clsMask;   // applicable argument classes
    unsigned recvMask;  // applicable receiver states
    std::function<Out(Fix &, Cls)> call;
};

std::vector<Entry> buildEntries(); // c09_badargs_entries.hpp

inline const std::vector<Entry> &entries()
{
    static std::vector<Entry> e = buildEntries();
    return e;
}

inline void decode(uint64_t i, size_t &e, Cls &c, Recv &r)
{
    Radix rx(i);
    r = Recv(rx.take(NRECV));
    c = Cls(rx.take(NCLS));
    e = size_t(rx.take(entries().size()));
}
inline bool applicable(const Entry &en, Cls c, Recv r) { return (en.clsMask >> c & 1u) && (en.recvMask >> r & 1u); }

inline Family badargFamily()
{
    return Family{
        "badargs", [] { return uint64_t(entries().size()) * NCLS * NRECV; },
        [](uint64_t i, Ctx &ctx) {
            size_t e;
            Cls c;
            Recv r;
            decode(i, e, c, r);
            const Entry &en = entries()[e];
            if (!applicable(en, c, r)) { ctx.outcome("n/a"); return; }
            Fix f;
            f.ctx = &ctx;
            if (!f.prepare(en.rk, r)) { ctx.outcome("n/a:receiver-state-does-not-exist"); return; }
            std::string before = f.canon();
            size_t issuesBefore = f.issueTotal();
            Out o = en.call(f, c);
            for (auto &l : f.loggers) ctx.logger(l, "c09-service");
            bool issue = f.issueTotal() > issuesBefore;
            std::string after = f.canon();
            ctx.count("entry_points_exercised");
            if (!en.judge) { ctx.outcome(std::string("survived(not-judged):") + (en.role == PAYLOAD ? "payload" : "query")); return; }
            ++ctx.judged;
            bool benign = o.benign || issue, same = before == after;
            ctx.outcome(std::string(benign ? (issue ? "refused-with-issue" : "refused") : "accepted") + (same ? "" : "+state-changed"));
            if (benign && same) return;
            std::string what = std::string(benign ? "" : "returned-success") + (!benign && !same ? "+" : "") + (same ? "" : "state-changed");
            size_t d = 0;
            while (d < before.size() && d < after.size() && before[d] == after[d]) ++d;
            ctx.violation("badarg:" + en.name + ":" + clsName(c) + ":" + what,
                          {{"receiver", recvName(r)}, {"ret", o.ret}, {"issue_logged", issue},
                           {"before_at_diff", safe(before.substr(d > 60 ? d - 60 : 0, 240))}, {"after_at_diff", safe(after.substr(d > 60 ? d - 60 : 0, 240))}});
        },
        [](uint64_t i) {
            size_t e;
            Cls c;
            Recv r;
            decode(i, e, c, r);
            const Entry &en = entries()[e];
            return json{{"entry", en.name}, {"argument", clsName(c)}, {"receiver", recvName(r)}, {"role", en.role == TARGET ? "target" : en.role == PAYLOAD ? "payload" : "query"}, {"judged", en.judge}, {"applicable", applicable(en, c, r)}};
        }};
}

} // namespace c09b
