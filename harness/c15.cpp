// FLAVOURS: asan plain
// C15 — issue reporting is coherent across all services.
// Families: rules (every ReferenceRule value x level), anyelement (every CellmlElementType x every stored object kind x every
// accessor), explain (a failing result is always explained: one scenario per failing path of every service), imports (import
// graphs over files that produce messages, warnings, deleted errors, missing/garbage files; strict and permissive), corpus
// (all single deviations of seed documents through parser/validator/printer/analyser/importer/annotator in both modes), attrgrid
// (element kind x attribute position x attribute fault, both parser modes).
// The Logger-coherence checker (vf::loggerIncoherence, common.hpp) runs after every service call (ctx.logger).
#include "common.hpp"
#include "logger_p.h"
#include <sys/stat.h>
#include <array>

using namespace vf;

namespace {

// ------------------------------------------------------------------ helpers
const char *amName(AnalyserModel::Type t)
{
    switch (t) {
    case AnalyserModel::Type::UNKNOWN: return "UNKNOWN";
    case AnalyserModel::Type::ODE: return "ODE";
    case AnalyserModel::Type::DAE: return "DAE";
    case AnalyserModel::Type::NLA: return "NLA";
    case AnalyserModel::Type::ALGEBRAIC: return "ALGEBRAIC";
    case AnalyserModel::Type::INVALID: return "INVALID";
    case AnalyserModel::Type::UNDERCONSTRAINED: return "UNDERCONSTRAINED";
    case AnalyserModel::Type::OVERCONSTRAINED: return "OVERCONSTRAINED";
    case AnalyserModel::Type::UNSUITABLY_CONSTRAINED: return "UNSUITABLY_CONSTRAINED";
    }
    return "?";
}
bool amFailing(AnalyserModel::Type t)
{
    return t == AnalyserModel::Type::INVALID || t == AnalyserModel::Type::UNDERCONSTRAINED || t == AnalyserModel::Type::OVERCONSTRAINED || t == AnalyserModel::Type::UNSUITABLY_CONSTRAINED;
}
// "an item whose stored object matches its stated element type or is undefined": besides the C++ type of the stored object
// (vf::itemIncoherence, common.hpp) the object must EXIST: an item typed X whose X-pointer is null is neither an X nor undefined.
const char *elementTypeName(CellmlElementType t)
{
    static const char *N[] = {"COMPONENT", "COMPONENT_REF", "CONNECTION", "ENCAPSULATION", "IMPORT", "MAP_VARIABLES", "MATH", "MODEL", "RESET", "RESET_VALUE", "TEST_VALUE", "UNDEFINED", "UNIT", "UNITS", "VARIABLE"};
    int i = int(t);
    return (i >= 0 && i < 15) ? N[i] : "OUT-OF-RANGE";
}
std::optional<std::string> typedItemWithoutObject(const IssuePtr &is)
{
    auto it = is->item();
    if (!it) return std::string("item() is null");
    bool has = true;
    switch (it->type()) {
    case CellmlElementType::UNDEFINED: return std::nullopt;
    case CellmlElementType::MATH: { // no public getter: look at the stored object
        const std::any &a = it->mPimpl->mItem;
        has = a.type() == typeid(ComponentPtr) && std::any_cast<ComponentPtr>(a) != nullptr;
        break;
    }
    case CellmlElementType::COMPONENT: case CellmlElementType::COMPONENT_REF: has = it->component() != nullptr; break;
    case CellmlElementType::CONNECTION: case CellmlElementType::MAP_VARIABLES: has = it->variablePair() != nullptr; break;
    case CellmlElementType::ENCAPSULATION: case CellmlElementType::MODEL: has = it->model() != nullptr; break;
    case CellmlElementType::IMPORT: has = it->importSource() != nullptr; break;
    case CellmlElementType::RESET: case CellmlElementType::RESET_VALUE: case CellmlElementType::TEST_VALUE: has = it->reset() != nullptr; break;
    case CellmlElementType::UNIT: has = it->unitsItem() != nullptr; break;
    case CellmlElementType::UNITS: has = it->units() != nullptr; break;
    case CellmlElementType::VARIABLE: has = it->variable() != nullptr; break;
    default: return std::string("type outside the enumeration");
    }
    if (!has) return std::string("item is typed ") + elementTypeName(it->type()) + " but holds no object of that kind";
    return std::nullopt;
}
// every service call of this harness: shared coherence checker + the object-exists clause on every issue
void logged(Ctx &ctx, const LoggerPtr &l, const char *service)
{
    ctx.logger(l, service);
    for (size_t i = 0; i < l->issueCount(); ++i) {
        auto is = l->issue(i);
        if (!is) continue;
        ctx.count("issues_item_checked");
        if (auto x = typedItemWithoutObject(is)) {
            ctx.violation(std::string("C15:issue-item-without-object:") + service + ":" + (is->item() ? elementTypeName(is->item()->type()) : "null") + ":rule=" + std::to_string(int(is->referenceRule())),
                          {{"what", *x}, {"level", levelName(is->level())}, {"description", safe(is->description(), 300)}, {"issue-index", i}});
        }
    }
}
// "a failing result is always explained"
void explained(Ctx &ctx, const LoggerPtr &l, const std::string &service, const std::string &call, bool failed, const std::string &situation, json detail = json::object())
{
    logged(ctx, l, service.c_str());
    ctx.outcome(service + ":" + call + ":" + (failed ? (l->issueCount() ? "failed+explained" : "FAILED-WITHOUT-ISSUE") : (l->issueCount() ? "ok+issues" : "ok")));
    if (failed && l->issueCount() == 0) ctx.violation("C15:unexplained-failure:" + service + ":" + call + ":" + situation, detail);
}

// ------------------------------------------------------------------ scratch files for the importer
std::string g_dir;
void cleanupDir()
{
    if (g_dir.empty()) return;
    std::string cmd = "rm -rf '" + g_dir + "'";
    if (system(cmd.c_str()) != 0) {}
}
const char *NS2 = "http://www.cellml.org/cellml/2.0#";
std::string doc2(const std::string &body, const std::string &name = "lib") { return "<?xml version=\"1.0\" encoding=\"UTF-8\"?>\n<model xmlns=\"http://www.cellml.org/cellml/2.0#\" name=\"" + name + "\">" + body + "</model>\n"; }
const std::vector<std::pair<std::string, std::string>> &libraryFiles()
{
    static std::vector<std::pair<std::string, std::string>> f;
    if (f.empty()) {
        std::string lu = "<units name=\"lu\"><unit units=\"metre\" prefix=\"milli\"/></units>";
        std::string lc = "<component name=\"lc\"><variable name=\"x\" units=\"lu\" interface=\"public\"/></component>";
        f.push_back({"ok.cellml", doc2(lu + lc)});
        f.push_back({"v11.cellml", "<?xml version=\"1.0\"?>\n<model xmlns=\"http://www.cellml.org/cellml/1.1#\" xmlns:cmeta=\"http://www.cellml.org/metadata/1.0#\" name=\"lib\" cmeta:id=\"libid\">" + lu + "<component name=\"lc\"><variable name=\"x\" units=\"lu\" public_interface=\"out\"/></component></model>\n"});
        f.push_back({"errcomp.cellml", doc2(lu + "<component name=\"lc\"><variable name=\"x\" units=\"lu\" interface=\"public\" bogus=\"1\"/><reset bogus=\"2\"/></component>")});
        f.push_back({"errother.cellml", doc2(lu + lc + "<component name=\"other\" bogus=\"1\"><variable name=\"y\" units=\"lu\" bogus=\"2\"/></component><units name=\"ou\" bogus=\"3\"/>")});
        f.push_back({"errunits.cellml", doc2("<units name=\"lu\" bogus=\"0\"><unit units=\"metre\" prefix=\"milli\" bogus=\"1\"/></units>" + lc)});
        f.push_back({"v11err.cellml", "<?xml version=\"1.0\"?>\n<model xmlns=\"http://www.cellml.org/cellml/1.1#\" name=\"lib\" bogus=\"1\">" + lu + "<component name=\"lc\"><variable name=\"x\" units=\"lu\" public_interface=\"out\"/></component><component><variable units=\"lu\"/></component><rubbish/></model>\n"});
        f.push_back({"warn.cellml", doc2(lu + lc + "<import xmlns:xlink=\"http://www.w3.org/1999/xlink\" xlink:href=\"nowhere.cellml\" id=\"lost\"/><encapsulation/>")});
        f.push_back({"notxml.cellml", "this is <not xml"});
        f.push_back({"empty.cellml", ""});
        f.push_back({"nocomp.cellml", doc2("<units name=\"unrelated\"><unit units=\"second\"/></units><component name=\"unrelated\"/>")});
        f.push_back({"nested.cellml", doc2("<import xmlns:xlink=\"http://www.w3.org/1999/xlink\" xlink:href=\"errother.cellml\"><component component_ref=\"lc\" name=\"lc\"/></import><import xmlns:xlink=\"http://www.w3.org/1999/xlink\" xlink:href=\"errunits.cellml\"><units units_ref=\"lu\" name=\"lu\"/></import>")});
        f.push_back({"cyc.cellml", doc2("<import xmlns:xlink=\"http://www.w3.org/1999/xlink\" xlink:href=\"cyc.cellml\"><component component_ref=\"lc\" name=\"lc\"/><units units_ref=\"lu\" name=\"lu\"/></import>")});
        f.push_back({"needsmissing.cellml", doc2("<component name=\"lc\"><variable name=\"x\" units=\"absent_units\"/></component><units name=\"lu\"><unit units=\"absent_child\"/></units>")});
    }
    return f;
}
const std::string &scratchDir()
{
    if (g_dir.empty()) {
        const char *s = getenv("C15_SCRATCH");
        g_dir = std::string(s ? s : "/verif/build/scratch") + "/c15files." + std::to_string(getpid());
        std::string cmd = "mkdir -p '" + g_dir + "'";
        if (system(cmd.c_str()) != 0) {}
        for (auto &kv : libraryFiles()) {
            FILE *f = fopen((g_dir + "/" + kv.first).c_str(), "wb");
            if (f) { fwrite(kv.second.data(), 1, kv.second.size(), f); fclose(f); }
        }
        atexit(cleanupDir);
    }
    return g_dir;
}

// ------------------------------------------------------------------ family rules
uint64_t rulesCount() { return (uint64_t(Issue::ReferenceRule::UNSPECIFIED) + 1) * 3; }
json rulesShow(uint64_t i) { return {{"rule", i / 3}, {"level", levelName(Issue::Level(i % 3))}}; }
void rulesRun(uint64_t i, Ctx &ctx)
{
    auto rule = Issue::ReferenceRule(i / 3);
    auto level = Issue::Level(i % 3);
    auto issue = Issue::IssueImpl::create();
    issue->mPimpl->setDescription("rule sweep");
    issue->mPimpl->setLevel(level);
    issue->mPimpl->setReferenceRule(rule);
    ++ctx.judged;
    std::string heading, url, thrown;
    bool hOk = true, uOk = true;
    try { heading = issue->referenceHeading(); } catch (const std::exception &e) { hOk = false; thrown = e.what(); }
    try { url = issue->url(); } catch (const std::exception &e) { uOk = false; thrown = e.what(); }
    if (issue->referenceRule() != rule || issue->level() != level) ctx.violation("rules:issue-does-not-report-the-rule-or-level-it-was-given", rulesShow(i));
    if (!hOk) ctx.violation("rules:referenceHeading()-throws", {{"rule", i / 3}, {"what", thrown}});
    if (!uOk) ctx.violation("rules:url()-throws", {{"rule", i / 3}, {"what", thrown}});
    ctx.outcome(std::string("heading:") + (!hOk ? "THROWS" : heading.empty() ? "empty" : "section-number") + " url:" + (!uOk ? "THROWS" : url.empty() ? "empty" : url.find("?issue=") != std::string::npos ? "with-issue-anchor" : "other"));
    // the same issue inside a real logger: the shared checker must reach the same verdict (binds common.hpp to this sweep)
    auto logger = Printer::create();
    logger->Logger::pFunc()->addIssue(issue);
    auto verdict = loggerIncoherence(logger);
    if (verdict.has_value() && hOk && uOk) ctx.violation("C15:logger-incoherent:logger-holding-one-issue", {{"rule", i / 3}, {"level", levelName(level)}, {"what", *verdict}});
    if (!verdict.has_value() && (!hOk || !uOk)) ctx.violation("HARNESS:loggerIncoherence-missed-a-throwing-heading-or-url", {{"rule", i / 3}});
    if (logger->issueCount() != 1 || logger->issue(0) != issue) ctx.violation("rules:logger-does-not-return-the-added-issue", rulesShow(i));
}

// ------------------------------------------------------------------ family anyelement
struct Stored
{
    const char *name;
    int getter; // which accessor could return it: 0 component 1 importSource 2 model 3 reset 4 units 5 unitsItem 6 variable 7 variablePair, -1 none
    bool null;
};
const std::vector<Stored> &storedKinds()
{
    static std::vector<Stored> k = {{"nullptr", -1, true}, {"Component", 0, false}, {"Component(null)", 0, true}, {"ImportSource", 1, false}, {"ImportSource(null)", 1, true}, {"Model", 2, false}, {"Model(null)", 2, true},
                                    {"Reset", 3, false}, {"Reset(null)", 3, true}, {"Units", 4, false}, {"Units(null)", 4, true}, {"UnitsItem", 5, false}, {"UnitsItem(null)", 5, true}, {"Variable", 6, false}, {"Variable(null)", 6, true},
                                    {"VariablePair", 7, false}, {"VariablePair(null)", 7, true}, {"int", -1, false}, {"std::string", -1, false}, {"weak_ptr<Component>", -1, false}, {"empty-any", -1, true}};
    return k;
}
int designatedGetter(int t)
{
    switch (CellmlElementType(t)) {
    case CellmlElementType::COMPONENT: case CellmlElementType::COMPONENT_REF: return 0;
    case CellmlElementType::IMPORT: return 1;
    case CellmlElementType::ENCAPSULATION: case CellmlElementType::MODEL: return 2;
    case CellmlElementType::RESET: case CellmlElementType::RESET_VALUE: case CellmlElementType::TEST_VALUE: return 3;
    case CellmlElementType::UNITS: return 4;
    case CellmlElementType::UNIT: return 5;
    case CellmlElementType::VARIABLE: return 6;
    case CellmlElementType::CONNECTION: case CellmlElementType::MAP_VARIABLES: return 7;
    default: return -1; // MATH, UNDEFINED, out of range
    }
}
constexpr int NTYPES = 16; // the 15 enumerators plus one value outside the enumeration
uint64_t anyCount() { return uint64_t(NTYPES) * storedKinds().size(); }
json anyShow(uint64_t i) { return {{"type", i % NTYPES}, {"stored", storedKinds()[i / NTYPES].name}}; }
void anyRun(uint64_t i, Ctx &ctx)
{
    int t = int(i % NTYPES);
    const Stored &st = storedKinds()[i / NTYPES];
    auto comp = Component::create("c");
    auto imp = ImportSource::create();
    auto model = Model::create("m");
    auto reset = Reset::create();
    auto units = Units::create("u");
    units->addUnit("second");
    auto ui = UnitsItem::create(units, 0);
    auto var = Variable::create("v");
    auto var2 = Variable::create("w");
    auto vp = VariablePair::create(var, var2);
    auto e = AnyCellmlElement::AnyCellmlElementImpl::create();
    e->mPimpl->mType = CellmlElementType(t == 15 ? 99 : t);
    const void *raw = nullptr;
    std::string n = st.name;
    if (n == "nullptr") e->mPimpl->mItem = nullptr;
    else if (n == "Component") { e->mPimpl->mItem = comp; raw = comp.get(); }
    else if (n == "Component(null)") e->mPimpl->mItem = ComponentPtr();
    else if (n == "ImportSource") { e->mPimpl->mItem = imp; raw = imp.get(); }
    else if (n == "ImportSource(null)") e->mPimpl->mItem = ImportSourcePtr();
    else if (n == "Model") { e->mPimpl->mItem = model; raw = model.get(); }
    else if (n == "Model(null)") e->mPimpl->mItem = ModelPtr();
    else if (n == "Reset") { e->mPimpl->mItem = reset; raw = reset.get(); }
    else if (n == "Reset(null)") e->mPimpl->mItem = ResetPtr();
    else if (n == "Units") { e->mPimpl->mItem = units; raw = units.get(); }
    else if (n == "Units(null)") e->mPimpl->mItem = UnitsPtr();
    else if (n == "UnitsItem") { e->mPimpl->mItem = ui; raw = ui.get(); }
    else if (n == "UnitsItem(null)") e->mPimpl->mItem = UnitsItemPtr();
    else if (n == "Variable") { e->mPimpl->mItem = var; raw = var.get(); }
    else if (n == "Variable(null)") e->mPimpl->mItem = VariablePtr();
    else if (n == "VariablePair") { e->mPimpl->mItem = vp; raw = vp.get(); }
    else if (n == "VariablePair(null)") e->mPimpl->mItem = VariablePairPtr();
    else if (n == "int") e->mPimpl->mItem = 7;
    else if (n == "std::string") e->mPimpl->mItem = std::string("x");
    else if (n == "weak_ptr<Component>") e->mPimpl->mItem = std::weak_ptr<Component>(comp);
    else e->mPimpl->mItem = std::any();
    const void *got[8] = {nullptr};
    std::string thrown;
    try {
        got[0] = e->component().get();
        got[1] = e->importSource().get();
        got[2] = e->model().get();
        got[3] = e->reset().get();
        got[4] = e->units().get();
        got[5] = e->unitsItem().get();
        got[6] = e->variable().get();
        got[7] = e->variablePair().get();
    } catch (const std::exception &x) { thrown = x.what(); }
    ++ctx.judged;
    static const char *G[] = {"component()", "importSource()", "model()", "reset()", "units()", "unitsItem()", "variable()", "variablePair()"};
    if (!thrown.empty()) { ctx.violation("anyelement:accessor-throws", {{"case", anyShow(i)}, {"what", thrown}}); return; }
    if (int(e->type()) != (t == 15 ? 99 : t)) ctx.violation("anyelement:type()-differs-from-the-stored-type", anyShow(i));
    int d = designatedGetter(t == 15 ? 99 : t);
    bool any = false;
    for (int g = 0; g < 8; ++g) {
        const void *expect = (g == d && g == st.getter && !st.null) ? raw : nullptr;
        if (got[g]) any = true;
        if (got[g] != expect) ctx.violation(std::string("anyelement:") + G[g] + (expect ? "-does-not-return-the-stored-object" : "-returns-an-object-it-must-not"), anyShow(i));
    }
    ctx.outcome(std::string(any ? "object-returned" : "all-null") + (d < 0 ? ":type-without-getter" : d == st.getter ? ":stored-matches-type" : ":stored-mismatches-type"));
    // the shared checker on an issue holding this item: it must flag exactly the items whose stored object does not belong to the type
    auto issue = Issue::IssueImpl::create();
    issue->mPimpl->setDescription("any sweep");
    issue->mPimpl->mItem = e;
    bool coherentExpected;
    auto ty = CellmlElementType(t == 15 ? 99 : t);
    if (t == 15) coherentExpected = false;
    else if (ty == CellmlElementType::UNDEFINED) coherentExpected = n == "nullptr" || n == "empty-any";
    else if (ty == CellmlElementType::MATH) coherentExpected = st.getter == 0;
    else coherentExpected = st.getter == d;
    auto verdict = itemIncoherence(issue);
    if (verdict.has_value() == coherentExpected) ctx.violation("HARNESS:itemIncoherence-verdict-unexpected", {{"case", anyShow(i)}, {"verdict", verdict.value_or("coherent")}});
}

// ------------------------------------------------------------------ family explain
std::string mathml(const std::string &body) { return "<math xmlns=\"http://www.w3.org/1998/Math/MathML\" xmlns:cellml=\"http://www.cellml.org/cellml/2.0#\">" + body + "</math>"; }
std::string eqConst(const std::string &v, const std::string &c) { return "<apply><eq/><ci>" + v + "</ci><cn cellml:units=\"dimensionless\">" + c + "</cn></apply>"; }
std::string compDoc(const std::string &vars, const std::string &math)
{
    return doc2("<component name=\"c\">" + vars + (math.empty() ? "" : mathml(math)) + "</component>", "m");
}
std::string var(const std::string &n, const std::string &extra = "") { return "<variable name=\"" + n + "\" units=\"dimensionless\" " + extra + "/>"; }
ModelPtr parseStrict(const std::string &d) { return Parser::create()->parseModel(d); }

struct Scenario
{
    std::string name;
    std::function<void(Ctx &)> run;
};
void analyse(Ctx &ctx, const std::string &situation, const ModelPtr &m, const char *expectType = nullptr)
{
    auto a = Analyser::create();
    a->analyseModel(m);
    auto t = a->model() ? a->model()->type() : AnalyserModel::Type::UNKNOWN;
    explained(ctx, a, "analyser", "analyseModel", amFailing(t), situation, {{"type", amName(t)}});
    ctx.outcome(std::string("analyser-type:") + amName(t));
    if (expectType && std::string(expectType) != amName(t)) ctx.violation("HARNESS:explain-scenario-did-not-produce-the-intended-model-type", {{"scenario", situation}, {"type", amName(t)}, {"intended", expectType}});
}
const std::vector<Scenario> &scenarios()
{
    static std::vector<Scenario> s;
    if (!s.empty()) return s;
    // ---- parser
    for (bool strict : {true, false}) {
        std::string mode = strict ? "strict" : "permissive";
        std::vector<std::pair<std::string, std::string>> inputs = {
            {"empty-string", ""}, {"whitespace", " \n"}, {"garbage", "this is not xml"}, {"truncated", "<?xml version=\"1.0\"?><model xmlns=\"http://www.cellml.org/cellml/2.0#\" name=\"m\"><component"},
            {"wrong-root", "<a/>"}, {"wrong-namespace", "<model xmlns=\"http://example.org/\" name=\"m\"/>"}, {"binary", std::string("\x00\x01\xff\xfe<", 5)}, {"cellml-1.1", libraryFiles()[1].second},
            {"math-root", "<math xmlns=\"http://www.w3.org/1998/Math/MathML\"/>"}, {"valid", doc2("", "m")}, {"huge-depth", std::string(2000, '<')}};
        for (auto &in : inputs) {
            s.push_back({"parser:" + mode + ":" + in.first, [strict, in, mode](Ctx &ctx) {
                             auto p = Parser::create(strict);
                             auto m = p->parseModel(in.second);
                             explained(ctx, p, "parser", "parseModel", m == nullptr, mode + ":" + in.first);
                             ctx.outcome(std::string("parser-result:") + (m ? "model" : "null"));
                         }});
        }
    }
    // ---- importer
    for (bool strict : {true, false}) {
        std::string mode = strict ? "strict" : "permissive";
        auto importing = [](const std::string &file, bool comp, bool units) {
            auto m = Model::create("top");
            if (comp) {
                auto is = ImportSource::create();
                is->setUrl(file);
                auto c = Component::create("ic");
                c->setImportSource(is);
                c->setImportReference("lc");
                m->addComponent(c);
            }
            if (units) {
                auto is = ImportSource::create();
                is->setUrl(file);
                auto u = Units::create("iu");
                u->setImportSource(is);
                u->setImportReference("lu");
                m->addUnits(u);
            }
            return m;
        };
        s.push_back({"importer:" + mode + ":resolveImports(null)", [strict, mode](Ctx &ctx) {
                         auto imp = Importer::create(strict);
                         ModelPtr m;
                         bool ok = imp->resolveImports(m, scratchDir());
                         explained(ctx, imp, "importer", "resolveImports", !ok, mode + ":null-model");
                     }});
        s.push_back({"importer:" + mode + ":flattenModel(null)", [strict, mode](Ctx &ctx) {
                         auto imp = Importer::create(strict);
                         auto f = imp->flattenModel(nullptr);
                         explained(ctx, imp, "importer", "flattenModel", f == nullptr, mode + ":null-model");
                     }});
        for (auto file : {"missing.cellml", "notxml.cellml", "empty.cellml", "nocomp.cellml", "cyc.cellml", "errcomp.cellml", "errunits.cellml", "needsmissing.cellml", "v11.cellml", "ok.cellml", "nested.cellml"}) {
            for (int what = 1; what <= 3; ++what) {
                std::string f = file;
                std::string sit = mode + ":" + f + (what == 1 ? ":component" : what == 2 ? ":units" : ":component+units");
                s.push_back({"importer:" + sit, [strict, f, what, sit, importing](Ctx &ctx) {
                                 auto m = importing(f, what & 1, what & 2);
                                 auto imp = Importer::create(strict);
                                 // flatten before resolving: unresolved imports
                                 auto f0 = imp->flattenModel(m);
                                 explained(ctx, imp, "importer", "flattenModel", f0 == nullptr, sit + ":unresolved");
                                 bool ok = imp->resolveImports(m, scratchDir());
                                 explained(ctx, imp, "importer", "resolveImports", !ok, sit);
                                 auto f1 = imp->flattenModel(m);
                                 explained(ctx, imp, "importer", "flattenModel", f1 == nullptr, sit + ":after-resolve");
                                 ctx.outcome(std::string("import-scenario:resolve=") + (ok ? "ok" : "fail") + " flatten=" + (f1 ? "model" : "null"));
                             }});
            }
        }
    }
    // ---- annotator
    auto annModel = [] {
        auto m = parseStrict(doc2("<component name=\"c\" id=\"dup\"><variable name=\"x\" units=\"dimensionless\" id=\"dup\"/><variable name=\"y\" units=\"dimensionless\" id=\"uniq\"/></component>", "m"));
        return m;
    };
    auto lookup = [](Ctx &ctx, const AnnotatorPtr &a, const std::string &id, const std::string &sit) {
        auto it = a->item(id);
        explained(ctx, a, "annotator", "item(id)", !it || it->type() == CellmlElementType::UNDEFINED, sit);
        explained(ctx, a, "annotator", "variable(id)", a->variable(id) == nullptr, sit);
        explained(ctx, a, "annotator", "component(id)", a->component(id) == nullptr, sit);
        explained(ctx, a, "annotator", "model(id)", a->model(id) == nullptr, sit);
        explained(ctx, a, "annotator", "units(id)", a->units(id) == nullptr, sit);
        explained(ctx, a, "annotator", "unitsItem(id)", a->unitsItem(id) == nullptr, sit);
        explained(ctx, a, "annotator", "reset(id)", a->reset(id) == nullptr, sit);
        explained(ctx, a, "annotator", "testValue(id)", a->testValue(id) == nullptr, sit);
        explained(ctx, a, "annotator", "resetValue(id)", a->resetValue(id) == nullptr, sit);
        explained(ctx, a, "annotator", "importSource(id)", a->importSource(id) == nullptr, sit);
        explained(ctx, a, "annotator", "connection(id)", a->connection(id) == nullptr, sit);
        explained(ctx, a, "annotator", "mapVariables(id)", a->mapVariables(id) == nullptr, sit);
        explained(ctx, a, "annotator", "encapsulation(id)", a->encapsulation(id) == nullptr, sit);
        explained(ctx, a, "annotator", "componentEncapsulation(id)", a->componentEncapsulation(id) == nullptr, sit);
    };
    s.push_back({"annotator:lookups:no-model", [lookup](Ctx &ctx) { auto a = Annotator::create(); lookup(ctx, a, "x", "no-model"); }});
    s.push_back({"annotator:lookups:model-set-to-null", [lookup, annModel](Ctx &ctx) { auto a = Annotator::create(); a->setModel(annModel()); a->setModel(nullptr); lookup(ctx, a, "uniq", "model-set-to-null"); }});
    s.push_back({"annotator:lookups:unknown-id", [lookup, annModel](Ctx &ctx) { auto a = Annotator::create(); auto m = annModel(); a->setModel(m); lookup(ctx, a, "nope", "unknown-id"); }});
    s.push_back({"annotator:lookups:empty-id", [lookup, annModel](Ctx &ctx) { auto a = Annotator::create(); auto m = annModel(); a->setModel(m); lookup(ctx, a, "", "empty-id"); }});
    s.push_back({"annotator:lookups:duplicated-id", [lookup, annModel](Ctx &ctx) { auto a = Annotator::create(); auto m = annModel(); a->setModel(m); lookup(ctx, a, "dup", "duplicated-id"); }});
    s.push_back({"annotator:lookups:wrong-kind-for-id", [annModel](Ctx &ctx) {
                     auto a = Annotator::create();
                     auto m = annModel();
                     a->setModel(m);
                     // the id exists and is unique but belongs to a variable: the other typed getters fail; item(id) succeeds
                     auto it = a->item("uniq");
                     explained(ctx, a, "annotator", "item(id)", !it || it->type() == CellmlElementType::UNDEFINED, "unique-id");
                     // documented for every typed getter: "An issue ... is logged if a nullptr is returned"
                     explained(ctx, a, "annotator", "component(id)", a->component("uniq") == nullptr, "id-carried-by-an-item-of-another-kind");
                     explained(ctx, a, "annotator", "units(id)", a->units("uniq") == nullptr, "id-carried-by-an-item-of-another-kind");
                     explained(ctx, a, "annotator", "reset(id)", a->reset("uniq") == nullptr, "id-carried-by-an-item-of-another-kind");
                     explained(ctx, a, "annotator", "model(id)", a->model("uniq") == nullptr, "id-carried-by-an-item-of-another-kind");
                     explained(ctx, a, "annotator", "connection(id)", a->connection("uniq") == nullptr, "id-carried-by-an-item-of-another-kind");
                     explained(ctx, a, "annotator", "importSource(id)", a->importSource("uniq") == nullptr, "id-carried-by-an-item-of-another-kind");
                     explained(ctx, a, "annotator", "unitsItem(id)", a->unitsItem("uniq") == nullptr, "id-carried-by-an-item-of-another-kind");
                     explained(ctx, a, "annotator", "variable(id,index)", a->variable("dup", 0) == nullptr, "index-selects-an-item-of-another-kind");
                     explained(ctx, a, "annotator", "variable(id)", a->variable("uniq") == nullptr, "unique-id");
                 }});
    s.push_back({"annotator:item(id,index):index-out-of-range-on-duplicated-id", [annModel](Ctx &ctx) {
                     auto a = Annotator::create();
                     auto m = annModel();
                     a->setModel(m);
                     auto it = a->item("dup", 2);
                     explained(ctx, a, "annotator", "item(id,index)", !it || it->type() == CellmlElementType::UNDEFINED, "index==count:duplicated-id");
                     explained(ctx, a, "annotator", "variable(id,index)", a->variable("dup", 5) == nullptr, "index>count:duplicated-id");
                 }});
    s.push_back({"annotator:item(id,index):index-out-of-range-on-unique-id", [annModel](Ctx &ctx) {
                     auto a = Annotator::create();
                     auto m = annModel();
                     a->setModel(m);
                     auto it = a->item("uniq", 1);
                     explained(ctx, a, "annotator", "item(id,index)", !it || it->type() == CellmlElementType::UNDEFINED, "index==count:unique-id");
                 }});
    s.push_back({"annotator:assign:no-model", [](Ctx &ctx) {
                     auto a = Annotator::create();
                     explained(ctx, a, "annotator", "assignAllIds()", !a->assignAllIds(), "no-model");
                     for (int t = 0; t < 15; ++t) explained(ctx, a, "annotator", "assignIds(type)", !a->assignIds(CellmlElementType(t)), "no-model");
                     auto v = Variable::create("v");
                     explained(ctx, a, "annotator", "assignId", a->assignId(v).empty(), "no-model");
                     a->clearAllIds();
                     explained(ctx, a, "annotator", "clearAllIds()", true, "no-model");
                 }});
    s.push_back({"annotator:assign:model-expired", [annModel](Ctx &ctx) {
                     auto a = Annotator::create();
                     {
                         auto m = annModel();
                         a->setModel(m);
                     }
                     explained(ctx, a, "annotator", "assignAllIds()", !a->assignAllIds(), "model-expired");
                     explained(ctx, a, "annotator", "assignIds(type)", !a->assignIds(CellmlElementType::VARIABLE), "model-expired");
                     auto v = Variable::create("v");
                     explained(ctx, a, "annotator", "assignId", a->assignId(v).empty(), "model-expired");
                 }});
    s.push_back({"annotator:assignAllIds(null-model)", [](Ctx &ctx) {
                     auto a = Annotator::create();
                     ModelPtr none;
                     explained(ctx, a, "annotator", "assignAllIds(model)", !a->assignAllIds(none), "null-model");
                 }});
    s.push_back({"annotator:assignAllIds(null-model)-after-a-model-was-set", [annModel](Ctx &ctx) {
                     auto a = Annotator::create();
                     auto m = annModel();
                     a->setModel(m);
                     ModelPtr none;
                     explained(ctx, a, "annotator", "assignAllIds(model)", !a->assignAllIds(none), "null-model");
                 }});
    s.push_back({"annotator:assignId:null-items", [annModel](Ctx &ctx) {
                     auto a = Annotator::create();
                     auto m = annModel();
                     a->setModel(m);
                     explained(ctx, a, "annotator", "assignId", a->assignId(VariablePtr()).empty(), "null-item");
                     explained(ctx, a, "annotator", "assignId", a->assignId(ComponentPtr()).empty(), "null-item");
                     explained(ctx, a, "annotator", "assignId", a->assignId(ModelPtr()).empty(), "null-item");
                     explained(ctx, a, "annotator", "assignId", a->assignId(ResetPtr()).empty(), "null-item");
                     explained(ctx, a, "annotator", "assignId", a->assignId(UnitsPtr()).empty(), "null-item");
                     explained(ctx, a, "annotator", "assignId", a->assignId(ImportSourcePtr()).empty(), "null-item");
                     explained(ctx, a, "annotator", "assignId", a->assignId(UnitsItemPtr()).empty(), "null-item");
                     explained(ctx, a, "annotator", "assignId", a->assignId(VariablePairPtr()).empty(), "null-item");
                     explained(ctx, a, "annotator", "assignId", a->assignId(VariablePtr(), VariablePtr()).empty(), "null-item");
                     explained(ctx, a, "annotator", "assignId", a->assignId(AnyCellmlElement::AnyCellmlElementImpl::create()).empty(), "undefined-item");
                 }});
    s.push_back({"annotator:assignId:null-AnyCellmlElementPtr", [annModel](Ctx &ctx) {
                     auto a = Annotator::create();
                     auto m = annModel();
                     a->setModel(m);
                     explained(ctx, a, "annotator", "assignId", a->assignId(AnyCellmlElementPtr()).empty(), "null-AnyCellmlElementPtr");
                 }});
    s.push_back({"annotator:assignId:item-of-another-model", [annModel](Ctx &ctx) {
                     auto a = Annotator::create();
                     auto m = annModel();
                     auto other = annModel();
                     a->setModel(m);
                     explained(ctx, a, "annotator", "assignId", a->assignId(other->component(0)->variable(0)).empty(), "item-not-in-the-model");
                     explained(ctx, a, "annotator", "assignId", a->assignId(other->component(0)).empty(), "item-not-in-the-model");
                     explained(ctx, a, "annotator", "assignId", a->assignId(other).empty(), "item-not-in-the-model");
                     explained(ctx, a, "annotator", "assignId", a->assignId(Variable::create("orphan")).empty(), "item-not-in-the-model");
                     explained(ctx, a, "annotator", "assignId", a->assignId(Units::create("orphan")).empty(), "item-not-in-the-model");
                 }});
    // ---- analyser
    s.push_back({"analyser:null-model", [](Ctx &ctx) { analyse(ctx, "null-model", nullptr); }});
    s.push_back({"analyser:invalid:variable-without-units", [](Ctx &ctx) { analyse(ctx, "invalid:variable-without-units", parseStrict(doc2("<component name=\"c\"><variable name=\"x\"/></component>", "m")), "INVALID"); }});
    s.push_back({"analyser:invalid:bad-math", [](Ctx &ctx) { analyse(ctx, "invalid:bad-math", parseStrict(compDoc(var("x"), "<apply><eq/><ci>nope</ci><cn cellml:units=\"dimensionless\">1</cn></apply>")), "INVALID"); }});
    s.push_back({"analyser:invalid:unlinked-units", [](Ctx &ctx) {
                     auto m = Model::create("m");
                     auto c = Component::create("c");
                     auto v = Variable::create("x");
                     v->setUnits(Units::create("myunits"));
                     c->addVariable(v);
                     m->addComponent(c);
                     m->addUnits(Units::create("myunits"));
                     analyse(ctx, "unlinked-units", m);
                 }});
    s.push_back({"analyser:underconstrained:unused-variable", [](Ctx &ctx) { analyse(ctx, "underconstrained:unused-variable", parseStrict(compDoc(var("x") + var("y"), eqConst("x", "1"))), "UNDERCONSTRAINED"); }});
    s.push_back({"analyser:underconstrained:state-not-initialised", [](Ctx &ctx) {
                     analyse(ctx, "underconstrained:state-not-initialised", parseStrict(compDoc(var("t") + var("x"), "<apply><eq/><apply><diff/><bvar><ci>t</ci></bvar><ci>x</ci></apply><cn cellml:units=\"dimensionless\">1</cn></apply>")), "UNDERCONSTRAINED");
                 }});
    s.push_back({"analyser:overconstrained", [](Ctx &ctx) { analyse(ctx, "overconstrained", parseStrict(compDoc(var("x"), eqConst("x", "1") + eqConst("x", "2"))), "OVERCONSTRAINED"); }});
    s.push_back({"analyser:overconstrained:initialised-and-computed", [](Ctx &ctx) { analyse(ctx, "overconstrained:initialised-and-computed", parseStrict(compDoc(var("x", "initial_value=\"3\""), eqConst("x", "1")))); }});
    s.push_back({"analyser:unsuitably-constrained", [](Ctx &ctx) { analyse(ctx, "unsuitably-constrained", parseStrict(compDoc(var("x") + var("y"), eqConst("x", "1") + eqConst("x", "2"))), "UNSUITABLY_CONSTRAINED"); }});
    s.push_back({"analyser:two-variables-of-integration", [](Ctx &ctx) {
                     analyse(ctx, "invalid:two-voi", parseStrict(compDoc(var("t") + var("s") + var("x", "initial_value=\"0\"") + var("y", "initial_value=\"0\""),
                                                                       "<apply><eq/><apply><diff/><bvar><ci>t</ci></bvar><ci>x</ci></apply><cn cellml:units=\"dimensionless\">1</cn></apply><apply><eq/><apply><diff/><bvar><ci>s</ci></bvar><ci>y</ci></apply><cn cellml:units=\"dimensionless\">1</cn></apply>")), "INVALID");
                 }});
    s.push_back({"analyser:valid-algebraic", [](Ctx &ctx) { analyse(ctx, "valid", parseStrict(compDoc(var("x"), eqConst("x", "1"))), "ALGEBRAIC"); }});
    s.push_back({"analyser:empty-model", [](Ctx &ctx) { analyse(ctx, "empty-model", Model::create("m")); }});
    s.push_back({"analyser:unresolved-imports", [](Ctx &ctx) {
                     auto m = Model::create("top");
                     auto is = ImportSource::create();
                     is->setUrl("ok.cellml");
                     auto c = Component::create("ic");
                     c->setImportSource(is);
                     c->setImportReference("lc");
                     m->addComponent(c);
                     analyse(ctx, "unresolved-imports", m);
                 }});
    s.push_back({"analyser:external-variable-of-another-model", [](Ctx &ctx) {
                     auto m = parseStrict(compDoc(var("x"), eqConst("x", "1")));
                     auto other = parseStrict(compDoc(var("x"), eqConst("x", "1")));
                     auto a = Analyser::create();
                     a->addExternalVariable(AnalyserExternalVariable::create(other->component(0)->variable(0)));
                     a->analyseModel(m);
                     auto t = a->model()->type();
                     explained(ctx, a, "analyser", "analyseModel", amFailing(t), "external-variable-of-another-model", {{"type", amName(t)}});
                     // a second analysis with the same analyser: the issue list belongs to the last call
                     a->analyseModel(parseStrict(compDoc(var("x") + var("y"), eqConst("x", "1"))));
                     t = a->model()->type();
                     explained(ctx, a, "analyser", "analyseModel", amFailing(t), "second-call-underconstrained", {{"type", amName(t)}});
                 }});
    // ---- validator / printer: no failing result in the statement, coherence only
    s.push_back({"validator:null-and-invalid", [](Ctx &ctx) {
                     auto v = Validator::create();
                     v->validateModel(nullptr);
                     logged(ctx, v, "validator");
                     ctx.outcome(std::string("validator:null-model:") + (v->issueCount() ? "issues" : "no-issues"));
                     v->validateModel(parseStrict(doc2("<component name=\"1bad\"><variable name=\"x\"/><variable name=\"x\" units=\"nope\" interface=\"sideways\" initial_value=\"abc\"/><reset/></component><units name=\"second\"/>", "0bad")));
                     logged(ctx, v, "validator");
                     v->validateModel(Model::create("fine"));
                     logged(ctx, v, "validator");
                     ctx.outcome(std::string("validator:valid-after-invalid:") + (v->issueCount() ? "issues" : "no-issues"));
                 }});
    s.push_back({"printer:bad-math-and-null", [](Ctx &ctx) {
                     auto p = Printer::create();
                     (void)p->printModel(nullptr);
                     logged(ctx, p, "printer");
                     auto m = Model::create("m");
                     auto c = Component::create("c");
                     c->setMath("<math><unclosed>");
                     m->addComponent(c);
                     (void)p->printModel(m);
                     logged(ctx, p, "printer");
                     (void)p->printModel(m, true);
                     logged(ctx, p, "printer");
                     ctx.outcome(std::string("printer:bad-math:") + (p->issueCount() ? "issues" : "no-issues"));
                 }});
    return s;
}
uint64_t explainCount() { return scenarios().size(); }
json explainShow(uint64_t i) { return {{"scenario", scenarios()[i].name}}; }
void explainRun(uint64_t i, Ctx &ctx)
{
    ++ctx.judged;
    scenarios()[i].run(ctx);
}

// ------------------------------------------------------------------ family imports
int importSlots() { const char *t = getenv("VERIF_TIER"); return (t && std::string(t) == "thorough") ? 3 : 2; }
uint64_t optionCount() { return 2 * (libraryFiles().size() + 1); } // (component|units) x (files + one missing file)
uint64_t importsCount()
{
    uint64_t total = 0, p = 1;
    for (int k = 1; k <= importSlots(); ++k) { p *= optionCount(); total += p; }
    return total * 2;
}
struct ImportCase
{
    bool strict;
    std::vector<int> slots;
};
ImportCase importsDecode(uint64_t i)
{
    ImportCase c;
    c.strict = i % 2 == 0;
    i /= 2;
    uint64_t p = 1;
    for (int k = 1; k <= importSlots(); ++k) {
        p *= optionCount();
        if (i < p) {
            for (int j = 0; j < k; ++j) { c.slots.push_back(int(i % optionCount())); i /= optionCount(); }
            return c;
        }
        i -= p;
    }
    return c;
}
std::string slotFile(int s) { size_t f = size_t(s / 2); return f < libraryFiles().size() ? libraryFiles()[f].first : "missing.cellml"; }
json importsShow(uint64_t i)
{
    ImportCase c = importsDecode(i);
    json a = json::array();
    for (int s : c.slots) a.push_back(std::string(s % 2 ? "units lu from " : "component lc from ") + slotFile(s));
    return {{"importer", c.strict ? "strict" : "permissive"}, {"imports-in-order", a}};
}
void importsRun(uint64_t i, Ctx &ctx)
{
    ImportCase c = importsDecode(i);
    auto m = Model::create("top");
    int k = 0;
    for (int s : c.slots) {
        auto is = ImportSource::create();
        is->setUrl(slotFile(s));
        if (s % 2) {
            auto u = Units::create("iu" + std::to_string(k));
            u->setImportSource(is);
            u->setImportReference("lu");
            m->addUnits(u);
        } else {
            auto comp = Component::create("ic" + std::to_string(k));
            comp->setImportSource(is);
            comp->setImportReference("lc");
            m->addComponent(comp);
        }
        ++k;
    }
    ++ctx.judged;
    auto imp = Importer::create(c.strict);
    std::string mode = c.strict ? "strict" : "permissive";
    bool ok = imp->resolveImports(m, scratchDir());
    size_t e1 = imp->errorCount(), w1 = imp->warningCount(), m1 = imp->messageCount();
    // how many parser errors / warnings / messages the imported files carry (parsed here independently, once per file and mode):
    // shows that the importer really had errors to delete and messages to keep in this case
    static std::map<std::string, std::array<size_t, 3>> fileIssues;
    size_t fe = 0, fw = 0, fm = 0;
    std::set<std::string> seen;
    for (int s : c.slots) {
        std::string f = slotFile(s);
        if (!seen.insert(f).second || s / 2 >= int(libraryFiles().size())) continue;
        std::string key = mode + ":" + f;
        if (!fileIssues.count(key)) {
            auto p = Parser::create(c.strict);
            (void)p->parseModel(libraryFiles()[size_t(s / 2)].second);
            fileIssues[key] = {p->errorCount(), p->warningCount(), p->messageCount()};
        }
        fe += fileIssues[key][0];
        fw += fileIssues[key][1];
        fm += fileIssues[key][2];
    }
    ctx.count("parser_errors_in_imported_files", fe);
    ctx.count("parser_warnings_in_imported_files", fw);
    ctx.count("parser_messages_in_imported_files", fm);
    ctx.count("importer_errors_after_resolve", e1);
    ctx.count("importer_messages_after_resolve", m1);
    if (fe > 0 && ok && e1 == 0) ctx.count("cases_where_all_imported_file_errors_were_deleted");
    if (fe > 0 && m1 > 0) ctx.count("cases_mixing_kept_messages_with_file_errors");
    explained(ctx, imp, "importer", "resolveImports", !ok, mode + ":import-graph", importsShow(i));
    auto flat = imp->flattenModel(m);
    explained(ctx, imp, "importer", "flattenModel", flat == nullptr, mode + ":import-graph", importsShow(i));
    // once more with the library populated (models now come from the library, not from disk)
    bool ok2 = imp->resolveImports(m, scratchDir());
    explained(ctx, imp, "importer", "resolveImports", !ok2, mode + ":import-graph:second-call", importsShow(i));
    auto v = Validator::create();
    v->validateModel(m);
    logged(ctx, v, "validator");
    if (flat) {
        auto a = Analyser::create();
        a->analyseModel(flat);
        auto t = a->model()->type();
        explained(ctx, a, "analyser", "analyseModel", amFailing(t), "flattened-import-graph", importsShow(i));
    }
    ctx.outcome(mode + ":resolve=" + (ok ? "ok" : "fail") + " errors=" + (e1 ? ">0" : "0") + " warnings=" + (w1 ? ">0" : "0") + " messages=" + (m1 ? ">0" : "0") + " flatten=" + (flat ? "model" : "null") + " again=" + (ok2 ? "ok" : "fail"));
}

// ------------------------------------------------------------------ family corpus: single deviations of seed documents
const std::vector<std::pair<std::string, std::string>> &seeds()
{
    static std::vector<std::pair<std::string, std::string>> s;
    if (s.empty()) {
        s.push_back({"ode-2.0", "<?xml version=\"1.0\" encoding=\"UTF-8\"?>\n<model xmlns=\"http://www.cellml.org/cellml/2.0#\" name=\"ode\" id=\"mid\">"
                                "<units name=\"per_s\" id=\"uid\"><unit units=\"second\" exponent=\"-1\" id=\"unitid\"/></units>"
                                "<component name=\"outer\" id=\"cid\"><variable name=\"t\" units=\"second\" interface=\"public_and_private\" id=\"vid\"/><variable name=\"x\" units=\"dimensionless\" initial_value=\"1\" interface=\"public_and_private\"/>"
                                "<math xmlns=\"http://www.w3.org/1998/Math/MathML\" xmlns:cellml=\"http://www.cellml.org/cellml/2.0#\"><apply><eq/><apply><diff/><bvar><ci>t</ci></bvar><ci>x</ci></apply><apply><times/><cn cellml:units=\"per_s\">2</cn><ci>x</ci></apply></apply></math>"
                                "<reset variable=\"x\" test_variable=\"t\" order=\"1\" id=\"rid\"><test_value id=\"tvid\"><math xmlns=\"http://www.w3.org/1998/Math/MathML\" xmlns:cellml=\"http://www.cellml.org/cellml/2.0#\"><cn cellml:units=\"second\">5</cn></math></test_value>"
                                "<reset_value id=\"rvid\"><math xmlns=\"http://www.w3.org/1998/Math/MathML\" xmlns:cellml=\"http://www.cellml.org/cellml/2.0#\"><cn cellml:units=\"dimensionless\">0</cn></math></reset_value></reset></component>"
                                "<component name=\"inner\"><variable name=\"t\" units=\"second\" interface=\"public\"/><variable name=\"y\" units=\"dimensionless\" interface=\"public\"/>"
                                "<math xmlns=\"http://www.w3.org/1998/Math/MathML\" xmlns:cellml=\"http://www.cellml.org/cellml/2.0#\"><apply><eq/><ci>y</ci><apply><plus/><ci>t</ci><cn cellml:units=\"second\" type=\"e-notation\">1<sep/>0</cn></apply></apply></math></component>"
                                "<connection component_1=\"outer\" component_2=\"inner\" id=\"connid\"><map_variables variable_1=\"t\" variable_2=\"t\" id=\"mapid\"/></connection>"
                                "<encapsulation id=\"encid\"><component_ref component=\"outer\" id=\"crid\"><component_ref component=\"inner\"/></component_ref></encapsulation></model>\n"});
        s.push_back({"imports-2.0", "<?xml version=\"1.0\" encoding=\"UTF-8\"?>\n<model xmlns=\"http://www.cellml.org/cellml/2.0#\" xmlns:xlink=\"http://www.w3.org/1999/xlink\" name=\"importer\">"
                                    "<import xlink:href=\"ok.cellml\" id=\"imp1\"><component component_ref=\"lc\" name=\"ic\"/><units units_ref=\"lu\" name=\"iu\"/></import>"
                                    "<import xlink:href=\"errother.cellml\"><component component_ref=\"lc\" name=\"ic2\"/></import>"
                                    "<component name=\"user\"><variable name=\"x\" units=\"iu\" interface=\"public\"/><variable name=\"z\" units=\"iu\"/>"
                                    "<math xmlns=\"http://www.w3.org/1998/Math/MathML\"><apply><eq/><ci>z</ci><ci>x</ci></apply></math></component>"
                                    "<connection component_1=\"user\" component_2=\"ic\"><map_variables variable_1=\"x\" variable_2=\"x\"/></connection></model>\n"});
        s.push_back({"legacy-1.1", "<?xml version=\"1.0\"?>\n<model xmlns=\"http://www.cellml.org/cellml/1.1#\" xmlns:cmeta=\"http://www.cellml.org/metadata/1.0#\" xmlns:xlink=\"http://www.w3.org/1999/xlink\" name=\"legacy\" cmeta:id=\"lid\">"
                                   "<import xlink:href=\"v11.cellml\"><component component_ref=\"lc\" name=\"ic\"/></import>"
                                   "<units name=\"litre_per_s\"><unit units=\"liter\"/><unit units=\"second\" exponent=\"-1\"/></units>"
                                   "<component name=\"a\"><variable name=\"p\" units=\"litre_per_s\" public_interface=\"out\" initial_value=\"2\"/><variable name=\"q\" units=\"litre_per_s\" private_interface=\"in\"/>"
                                   "<math xmlns=\"http://www.w3.org/1998/Math/MathML\" xmlns:cellml=\"http://www.cellml.org/cellml/1.1#\"><apply><eq/><ci>q</ci><apply><plus/><ci>q</ci><cn cellml:units=\"litre_per_s\">1</cn></apply></apply></math></component>"
                                   "<component name=\"b\"><variable name=\"p\" units=\"litre_per_s\" public_interface=\"in\"/></component>"
                                   "<group><relationship_ref relationship=\"encapsulation\"/><component_ref component=\"a\"><component_ref component=\"b\"/></component_ref></group>"
                                   "<connection><map_components component_1=\"a\" component_2=\"b\"/><map_variables variable_1=\"p\" variable_2=\"p\"/></connection></model>\n"});
        s.push_back({"algebraic-2.0", "<?xml version=\"1.0\" encoding=\"UTF-8\"?>\n<model xmlns=\"http://www.cellml.org/cellml/2.0#\" name=\"alg\"><component name=\"c\"><variable name=\"a\" units=\"dimensionless\"/><variable name=\"b\" units=\"dimensionless\" initial_value=\"3\"/>"
                                      "<math xmlns=\"http://www.w3.org/1998/Math/MathML\" xmlns:cellml=\"http://www.cellml.org/cellml/2.0#\"><apply><eq/><ci>a</ci><apply><minus/><ci>b</ci><cn cellml:units=\"dimensionless\">1</cn></apply></apply></math></component></model>\n"});
    }
    return s;
}
struct Deviation
{
    int node;  // element index in document order
    int attr;  // -1: element deviation
    int kind;  // element: 0 delete 1 duplicate 2 rename 3 empty-content; attribute: 0 delete 1 rename 2 empty 3 garbage 4 duplicate-value-of-sibling
};
void listElements(xmlNodePtr n, std::vector<xmlNodePtr> &out)
{
    for (; n; n = n->next) {
        if (n->type == XML_ELEMENT_NODE) { out.push_back(n); listElements(n->children, out); }
    }
}
struct SeedInfo
{
    std::vector<Deviation> dev;
};
const std::vector<SeedInfo> &seedInfo()
{
    static std::vector<SeedInfo> info;
    if (info.empty()) {
        for (auto &sd : seeds()) {
            SeedInfo si;
            si.dev.push_back({-1, -1, 0}); // the seed itself
            xmlDocPtr d = xmlReadMemory(sd.second.data(), int(sd.second.size()), "s.xml", nullptr, XML_PARSE_NOERROR | XML_PARSE_NOWARNING | XML_PARSE_NONET);
            std::vector<xmlNodePtr> els;
            if (d) listElements(xmlDocGetRootElement(d), els);
            for (size_t e = 0; e < els.size(); ++e) {
                for (int k = 0; k < 4; ++k) if (!(e == 0 && k < 2)) si.dev.push_back({int(e), -1, k});
                int a = 0;
                for (xmlAttrPtr at = els[e]->properties; at; at = at->next, ++a) for (int k = 0; k < 5; ++k) si.dev.push_back({int(e), a, k});
            }
            if (d) xmlFreeDoc(d);
            info.push_back(si);
        }
    }
    return info;
}
std::string deviant(size_t seed, const Deviation &dv, std::string &what)
{
    const std::string &src = seeds()[seed].second;
    if (dv.node < 0) { what = "seed"; return src; }
    xmlDocPtr d = xmlReadMemory(src.data(), int(src.size()), "s.xml", nullptr, XML_PARSE_NOERROR | XML_PARSE_NOWARNING | XML_PARSE_NONET);
    std::vector<xmlNodePtr> els;
    listElements(xmlDocGetRootElement(d), els);
    xmlNodePtr n = els[size_t(dv.node)];
    std::string name = (const char *)n->name;
    if (dv.attr < 0) {
        static const char *K[] = {"delete", "duplicate", "rename", "empty"};
        what = std::string(K[dv.kind]) + " <" + name + ">#" + std::to_string(dv.node);
        switch (dv.kind) {
        case 0: xmlUnlinkNode(n); xmlFreeNode(n); break;
        case 1: { xmlNodePtr c = xmlCopyNode(n, 1); xmlAddNextSibling(n, c); break; }
        case 2: xmlNodeSetName(n, BAD_CAST "renamed"); break;
        case 3: while (n->children) { xmlNodePtr c = n->children; xmlUnlinkNode(c); xmlFreeNode(c); } break;
        }
    } else {
        xmlAttrPtr at = n->properties;
        for (int a = 0; a < dv.attr && at; ++a) at = at->next;
        std::string an = (const char *)at->name;
        static const char *K[] = {"delete", "rename", "empty", "garbage", "copy-sibling-value"};
        what = std::string(K[dv.kind]) + " @" + an + " of <" + name + ">#" + std::to_string(dv.node);
        switch (dv.kind) {
        case 0: xmlRemoveProp(at); break;
        case 1: xmlNodeSetName((xmlNodePtr)at, BAD_CAST "renamed"); break;
        case 2: xmlNodeSetContent((xmlNodePtr)at, BAD_CAST ""); break;
        case 3: xmlNodeSetContent((xmlNodePtr)at, BAD_CAST "9 -bad value\xc3\xa9"); break;
        case 4: {
            // take the value of the same attribute on the next element that has one (forces duplicate names / ids)
            std::string v = "dup";
            for (size_t e = size_t(dv.node) + 1; e < els.size(); ++e) {
                xmlChar *x = xmlGetProp(els[e], at->name);
                if (x) { v = (const char *)x; xmlFree(x); break; }
            }
            xmlNodeSetContent((xmlNodePtr)at, BAD_CAST v.c_str());
            break;
        }
        }
    }
    xmlChar *mem = nullptr;
    int size = 0;
    xmlDocDumpMemory(d, &mem, &size);
    std::string out(mem ? (const char *)mem : "", size_t(size));
    if (mem) xmlFree(mem);
    xmlFreeDoc(d);
    return out;
}
uint64_t corpusCount()
{
    uint64_t n = 0;
    for (auto &si : seedInfo()) n += si.dev.size();
    return n * 2;
}
void corpusDecode(uint64_t i, size_t &seed, Deviation &dv, bool &strict)
{
    strict = i % 2 == 0;
    i /= 2;
    for (seed = 0; seed < seedInfo().size(); ++seed) {
        if (i < seedInfo()[seed].dev.size()) { dv = seedInfo()[seed].dev[i]; return; }
        i -= seedInfo()[seed].dev.size();
    }
    seed = 0;
    dv = {-1, -1, 0};
}
json corpusShow(uint64_t i)
{
    size_t seed;
    Deviation dv;
    bool strict;
    corpusDecode(i, seed, dv, strict);
    std::string what;
    std::string doc = deviant(seed, dv, what);
    return {{"seed", seeds()[seed].first}, {"deviation", what}, {"mode", strict ? "strict" : "permissive"}, {"document", safe(doc, 3000)}};
}
void corpusRun(uint64_t i, Ctx &ctx)
{
    size_t seed;
    Deviation dv;
    bool strict;
    corpusDecode(i, seed, dv, strict);
    std::string what;
    std::string doc = deviant(seed, dv, what);
    std::string mode = strict ? "strict" : "permissive";
    json d = {{"seed", seeds()[seed].first}, {"deviation", what}, {"mode", mode}};
    ++ctx.judged;
    auto parser = Parser::create(strict);
    auto model = parser->parseModel(doc);
    explained(ctx, parser, "parser", "parseModel", model == nullptr, mode + ":deviant-document", d);
    std::string cls = seeds()[seed].first + ":" + mode + ":parse=" + (parser->errorCount() ? "errors" : parser->issueCount() ? "messages-or-warnings" : "clean");
    if (!model) { ctx.outcome(cls + ":null"); return; }
    auto validator = Validator::create();
    validator->validateModel(model);
    logged(ctx, validator, "validator");
    cls += std::string(" valid=") + (validator->errorCount() ? "no" : "yes");
    auto printer = Printer::create();
    (void)printer->printModel(model);
    logged(ctx, printer, "printer");
    (void)printer->printModel(model, true);
    logged(ctx, printer, "printer");
    auto analyser = Analyser::create();
    analyser->analyseModel(model);
    auto t = analyser->model() ? analyser->model()->type() : AnalyserModel::Type::UNKNOWN;
    explained(ctx, analyser, "analyser", "analyseModel", amFailing(t), mode + ":deviant-document", d);
    cls += std::string(" analysed=") + amName(t);
    auto importer = Importer::create(strict);
    bool ok = importer->resolveImports(model, scratchDir());
    explained(ctx, importer, "importer", "resolveImports", !ok, mode + ":deviant-document", d);
    auto flat = importer->flattenModel(model);
    explained(ctx, importer, "importer", "flattenModel", flat == nullptr, mode + ":deviant-document", d);
    cls += std::string(" resolve=") + (ok ? "ok" : "fail") + " flat=" + (flat ? "model" : "null");
    if (flat && model->hasImports()) {
        auto a2 = Analyser::create();
        a2->analyseModel(flat);
        auto t2 = a2->model() ? a2->model()->type() : AnalyserModel::Type::UNKNOWN;
        explained(ctx, a2, "analyser", "analyseModel", amFailing(t2), mode + ":flattened-deviant-document", d);
        cls += std::string(" flat-analysed=") + amName(t2);
    }
    auto annotator = Annotator::create();
    annotator->setModel(model);
    logged(ctx, annotator, "annotator");
    auto ids = annotator->ids();
    logged(ctx, annotator, "annotator");
    for (auto &id : ids) {
        auto it = annotator->item(id);
        explained(ctx, annotator, "annotator", "item(id)", !it || it->type() == CellmlElementType::UNDEFINED, "id-listed-by-ids()");
    }
    (void)annotator->assignAllIds();
    logged(ctx, annotator, "annotator");
    ctx.outcome(cls);
}

// ------------------------------------------------------------------ family attrgrid: element kind x attribute position x attribute fault
// Every CellML element kind of two base documents (2.0 and 1.1, component_ref at three nesting levels) x every POSITION in its
// attribute list x {unknown attribute, attribute of the same local name in a foreign / in the CellML namespace, required attribute
// missing (+ unknown attribute at every position), attribute value unresolvable (+ unknown attribute at every position)},
// strict and permissive parser, then validator and printer. Every issue of every call is judged (logged()).
const std::vector<std::pair<std::string, std::string>> &gridBases()
{
    static std::vector<std::pair<std::string, std::string>> b;
    if (b.empty()) {
        b.push_back({"grid-2.0", "<?xml version=\"1.0\" encoding=\"UTF-8\"?>\n<model xmlns=\"http://www.cellml.org/cellml/2.0#\" xmlns:xlink=\"http://www.w3.org/1999/xlink\" name=\"grid\" id=\"mid\">"
                                 "<import xlink:href=\"ok.cellml\" id=\"impid\"><units units_ref=\"lu\" name=\"iu\" id=\"iuid\"/><component component_ref=\"lc\" name=\"ic\" id=\"icid\"/></import>"
                                 "<units name=\"per_s\" id=\"uid\"><unit units=\"second\" prefix=\"milli\" exponent=\"-1\" multiplier=\"2\" id=\"unitid\"/></units>"
                                 "<component name=\"a\" id=\"aid\"><variable name=\"x\" units=\"per_s\" interface=\"public_and_private\" initial_value=\"1\" id=\"xid\"/><variable name=\"t\" units=\"second\" interface=\"public_and_private\"/>"
                                 "<reset variable=\"x\" test_variable=\"t\" order=\"1\" id=\"rid\"><test_value id=\"tvid\"/><reset_value id=\"rvid\"/></reset></component>"
                                 "<component name=\"b\" id=\"bid\"><variable name=\"x\" units=\"per_s\" interface=\"public_and_private\"/></component>"
                                 "<component name=\"c\" id=\"cid\"><variable name=\"x\" units=\"per_s\" interface=\"public\"/></component>"
                                 "<connection component_1=\"a\" component_2=\"b\" id=\"connid\"><map_variables variable_1=\"x\" variable_2=\"x\" id=\"mapid\"/></connection>"
                                 "<encapsulation id=\"encid\"><component_ref component=\"a\" id=\"cra\"><component_ref component=\"b\" id=\"crb\"><component_ref component=\"c\" id=\"crc\"/></component_ref></component_ref></encapsulation></model>\n"});
        b.push_back({"grid-1.1", "<?xml version=\"1.0\"?>\n<model xmlns=\"http://www.cellml.org/cellml/1.1#\" xmlns:cmeta=\"http://www.cellml.org/metadata/1.0#\" xmlns:xlink=\"http://www.w3.org/1999/xlink\" name=\"grid\" cmeta:id=\"mid\">"
                                 "<import xlink:href=\"v11.cellml\"><units units_ref=\"lu\" name=\"iu\"/><component component_ref=\"lc\" name=\"ic\"/></import>"
                                 "<units name=\"per_s\" cmeta:id=\"uid\"><unit units=\"second\" prefix=\"milli\" exponent=\"-1\" multiplier=\"2\"/></units>"
                                 "<component name=\"a\" cmeta:id=\"aid\"><variable name=\"x\" units=\"per_s\" public_interface=\"out\" private_interface=\"out\" initial_value=\"1\" cmeta:id=\"xid\"/></component>"
                                 "<component name=\"b\"><variable name=\"x\" units=\"per_s\" public_interface=\"in\" private_interface=\"out\"/></component>"
                                 "<component name=\"c\"><variable name=\"x\" units=\"per_s\" public_interface=\"in\"/></component>"
                                 "<group><relationship_ref relationship=\"encapsulation\"/><component_ref component=\"a\"><component_ref component=\"b\"><component_ref component=\"c\"/></component_ref></component_ref></group>"
                                 "<connection><map_components component_1=\"a\" component_2=\"b\"/><map_variables variable_1=\"x\" variable_2=\"x\"/></connection>"
                                 "<connection><map_components component_1=\"b\" component_2=\"c\"/><map_variables variable_1=\"x\" variable_2=\"x\"/></connection></model>\n"});
    }
    return b;
}
struct GridAttr
{
    std::string href, prefix, name, value;
};
struct GridCase
{
    int base, elem;
    int kind; // 0 unknown attribute, 1 same local name in a foreign namespace, 2 same local name in the element's own (CellML) namespace, 3 attribute missing, 4 attribute value unresolvable
    int j;    // the legitimate attribute concerned (-1: none)
    int p;    // position of the extra (unknown / namespaced) attribute in the resulting list (-1: no extra attribute)
};
std::vector<GridAttr> attrsOf(xmlNodePtr n)
{
    std::vector<GridAttr> a;
    for (xmlAttrPtr at = n->properties; at; at = at->next) {
        xmlChar *v = xmlNodeGetContent((xmlNodePtr)at);
        a.push_back({at->ns && at->ns->href ? (const char *)at->ns->href : "", at->ns && at->ns->prefix ? (const char *)at->ns->prefix : "", (const char *)at->name, v ? (const char *)v : ""});
        if (v) xmlFree(v);
    }
    return a;
}
const std::vector<GridCase> &gridCases()
{
    static std::vector<GridCase> c;
    if (c.empty()) {
        for (size_t b = 0; b < gridBases().size(); ++b) {
            const std::string &src = gridBases()[b].second;
            c.push_back({int(b), -1, 0, -1, -1}); // the base document itself
            xmlDocPtr d = xmlReadMemory(src.data(), int(src.size()), "g.xml", nullptr, XML_PARSE_NOERROR | XML_PARSE_NOWARNING | XML_PARSE_NONET);
            std::vector<xmlNodePtr> els;
            if (d) listElements(xmlDocGetRootElement(d), els);
            for (size_t e = 0; e < els.size(); ++e) {
                int n = int(attrsOf(els[e]).size());
                for (int p = 0; p <= n; ++p) c.push_back({int(b), int(e), 0, -1, p});
                for (int kind : {1, 2}) for (int j = 0; j < n; ++j) for (int p = 0; p <= n; ++p) c.push_back({int(b), int(e), kind, j, p});
                for (int j = 0; j < n; ++j) for (int p = -1; p <= n - 1; ++p) c.push_back({int(b), int(e), 3, j, p});
                for (int j = 0; j < n; ++j) for (int p = -1; p <= n; ++p) c.push_back({int(b), int(e), 4, j, p});
            }
            if (d) xmlFreeDoc(d);
        }
    }
    return c;
}
std::string gridDocument(const GridCase &g, std::string &what, std::string &elementName)
{
    const std::string &src = gridBases()[size_t(g.base)].second;
    elementName = "-";
    if (g.elem < 0) { what = "base document"; return src; }
    xmlDocPtr d = xmlReadMemory(src.data(), int(src.size()), "g.xml", nullptr, XML_PARSE_NOERROR | XML_PARSE_NOWARNING | XML_PARSE_NONET);
    std::vector<xmlNodePtr> els;
    listElements(xmlDocGetRootElement(d), els);
    xmlNodePtr n = els[size_t(g.elem)];
    // nesting level distinguishes the component_refs
    int level = 0;
    for (xmlNodePtr q = n->parent; q && q->type == XML_ELEMENT_NODE; q = q->parent) ++level;
    elementName = std::string((const char *)n->name) + "@" + std::to_string(level) + (n->parent && n->parent->type == XML_ELEMENT_NODE ? std::string("<") + (const char *)n->parent->name : "");
    std::vector<GridAttr> list = attrsOf(n);
    std::string ownNs = n->ns && n->ns->href ? (const char *)n->ns->href : "";
    GridAttr extra {"", "", "bogus", "1"};
    static const char *K[] = {"unknown attribute", "attribute of the same local name in a foreign namespace", "attribute of the same local name in the CellML namespace", "attribute missing", "attribute value unresolvable"};
    what = K[g.kind];
    if (g.j >= 0) what += " (" + (list[size_t(g.j)].prefix.empty() ? "" : list[size_t(g.j)].prefix + ":") + list[size_t(g.j)].name + ")";
    if (g.kind == 1) extra = {"http://example.org/foreign", "fx", list[size_t(g.j)].name, list[size_t(g.j)].value};
    if (g.kind == 2) extra = {ownNs, "cellmlns", list[size_t(g.j)].name, list[size_t(g.j)].value};
    if (g.kind == 3) list.erase(list.begin() + g.j);
    if (g.kind == 4) list[size_t(g.j)].value = "no_such_thing_9";
    if (g.p >= 0) {
        list.insert(list.begin() + std::min<size_t>(size_t(g.p), list.size()), extra);
        what += (g.kind >= 3 ? std::string(" + unknown attribute") : std::string("")) + " at position " + std::to_string(g.p) + " of " + std::to_string(list.size() - 1) + " other attributes";
    }
    while (n->properties) xmlRemoveProp(n->properties);
    for (auto &a : list) {
        if (a.href.empty()) xmlNewProp(n, BAD_CAST a.name.c_str(), BAD_CAST a.value.c_str());
        else {
            xmlNsPtr ns = nullptr;
            for (xmlNsPtr q = n->nsDef; q; q = q->next) if (q->prefix && a.prefix == (const char *)q->prefix) ns = q;
            if (!ns && !(a.prefix == "cellmlns" || a.prefix == "fx")) ns = xmlSearchNsByHref(d, n, BAD_CAST a.href.c_str());
            if (!ns || !ns->prefix) ns = xmlNewNs(n, BAD_CAST a.href.c_str(), BAD_CAST a.prefix.c_str());
            xmlNewNsProp(n, ns, BAD_CAST a.name.c_str(), BAD_CAST a.value.c_str());
        }
    }
    xmlChar *mem = nullptr;
    int size = 0;
    xmlDocDumpMemory(d, &mem, &size);
    std::string out(mem ? (const char *)mem : "", size_t(size));
    if (mem) xmlFree(mem);
    xmlFreeDoc(d);
    return out;
}
uint64_t gridCount() { return gridCases().size() * 2; }
json gridShow(uint64_t i)
{
    const GridCase &g = gridCases()[i / 2];
    std::string what, el;
    std::string doc = gridDocument(g, what, el);
    return {{"base", gridBases()[size_t(g.base)].first}, {"element", el}, {"fault", what}, {"parser", i % 2 == 0 ? "strict" : "permissive"}, {"document", safe(doc, 3500)}};
}
void gridRun(uint64_t i, Ctx &ctx)
{
    const GridCase &g = gridCases()[i / 2];
    bool strict = i % 2 == 0;
    std::string what, el;
    std::string doc = gridDocument(g, what, el);
    std::string mode = strict ? "strict" : "permissive";
    ++ctx.judged;
    auto parser = Parser::create(strict);
    auto model = parser->parseModel(doc);
    explained(ctx, parser, "parser", "parseModel", model == nullptr, mode + ":attribute-grid", {{"element", el}, {"fault", what}});
    ctx.count("grid_parser_issues", parser->issueCount());
    static const char *K[] = {"unknown", "foreign-ns-duplicate", "cellml-ns-duplicate", "missing", "unresolvable"};
    ctx.outcome(gridBases()[size_t(g.base)].first + ":" + el + ":" + K[g.kind] + (g.kind >= 3 && g.p >= 0 ? "+unknown" : "") + ":" + mode + ":" + (parser->errorCount() ? "errors" : parser->issueCount() ? "messages-or-warnings" : "clean"));
    if (!model) return;
    auto validator = Validator::create();
    validator->validateModel(model);
    logged(ctx, validator, "validator");
    ctx.count("grid_validator_issues", validator->issueCount());
    auto printer = Printer::create();
    (void)printer->printModel(model);
    logged(ctx, printer, "printer");
    auto importer = Importer::create(strict);
    bool ok = importer->resolveImports(model, scratchDir());
    explained(ctx, importer, "importer", "resolveImports", !ok, mode + ":attribute-grid", {{"element", el}, {"fault", what}});
}

} // namespace

int main(int argc, char **argv)
{
    std::vector<Family> fs = {
        Family {"rules", rulesCount, rulesRun, rulesShow},
        Family {"anyelement", anyCount, anyRun, anyShow},
        Family {"explain", explainCount, explainRun, explainShow},
        Family {"imports", importsCount, importsRun, importsShow},
        Family {"corpus", corpusCount, corpusRun, corpusShow},
        Family {"attrgrid", gridCount, gridRun, gridShow},
    };
    return harnessMain(argc, argv, fs);
}
