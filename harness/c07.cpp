// FLAVOURS: asan plain
// C07 — import resolution terminates, succeeds exactly when possible, reports failures (DESIGN §3 C07).
//
// Enumerates ALL import graphs of a shape (F files, per file a fixed number of components and units, every entity either
// concrete — with every local units reference pattern — or an import of a same-kind entity of any file, own file
// included), renders every file as CellML 2.0 text, delivers the graph to the real Importer both as files in a scratch
// directory (resolveImports(model, base)) and as an addModel() library, and judges resolveImports / hasUnresolvedImports /
// flattenModel / the issue list / the library against a reference model that is a plain graph search on the spec.
// Fault families apply every single fault at every position of every resolvable graph; repair families run
// resolve(fault) -> repair -> {same importer without clearing, same importer after removeAllModels(), new importer} -> resolve.
//
// Every library call is made under a SIGSEGV guard (alternate stack + siglongjmp): the unbounded recursions the library
// enters on cyclic definitions overflow the stack; the guard records the crash (step + the recursing libcellml function),
// recovers and goes on with the next step, so one defect does not hide the rest of the scenario (--fork runs each scenario
// in a forked child instead, --noguard lets the process die).
#include "xstate.hpp" // crashSignature, readFileTail
#include <cxxabi.h>
#include <elf.h>
#include <link.h>
#include <setjmp.h>
#include <sys/resource.h>
#include <sys/stat.h>
#include <sys/time.h>
#include <ucontext.h>

using namespace vf;

// =========================================================================================== spec
enum FileStatus { FS_OK, FS_MISSING, FS_NOTXML, FS_NOTCELLML, FS_V11, FS_PARSEERR, FS_VALERR, FS_WARN };
static const char *FS_NAME[] = {"ok", "missing", "not-xml", "not-cellml", "cellml-1.1", "parse-error-2.0", "validation-error-2.0", "warning-2.0"};

struct Ent
{
    bool imp = false;
    int tf = 0, tk = 0; // import target (file, entity index of the same kind)
    int local = 0;      // component: 0 plain, 1+k uses u_k, 1+U+k an encapsulated child uses u_k; units: bit mask of local units references
    bool removed = false;
};
struct FileSpec
{
    std::vector<Ent> c, u;
    std::vector<int> parent; // encapsulation forest over the components of this file: parent[k] = index of the encapsulating component, -1 = top level
    FileStatus st = FS_OK;
    int trunc = -1; // FS_NOTXML: prefix class 0..5
};
struct Graph
{
    std::vector<FileSpec> f;
    std::vector<int> dirOf; // directory of each file (index into DIRS); empty = everything in one directory
    int hrefStyle = 0;      // 0 plain relative href, 1 with a redundant "./", 2 with a redundant "dir/../" detour
};
static const char *DIRS[] = {"", "a/", "a/b/", "s/"};
static const char *HREF_STYLE[] = {"plain", "dot-slash", "detour-through-a-directory-and-back"};
static const int COMP = 0, UNITS = 1;
struct Node
{
    int f, kind, k;
    bool child = false; // reached from its encapsulating component (not part of the identity)
    bool operator==(const Node &o) const { return f == o.f && kind == o.kind && k == o.k; }
    bool operator<(const Node &o) const { return std::tie(f, kind, k) < std::tie(o.f, o.kind, o.k); }
};
static const Ent &entOf(const Graph &g, Node n) { return n.kind == COMP ? g.f[n.f].c[n.k] : g.f[n.f].u[n.k]; }
static Ent &entOf(Graph &g, Node n) { return n.kind == COMP ? g.f[n.f].c[n.k] : g.f[n.f].u[n.k]; }
static std::string fileName(int j) { return "f" + std::to_string(j) + ".cellml"; }
static int parentOf(const FileSpec &fs, int k) { return k < int(fs.parent.size()) ? fs.parent[k] : -1; }
static std::string dirOfFile(const Graph &g, int f) { return f < int(g.dirOf.size()) ? DIRS[g.dirOf[f]] : ""; }
static std::string relPathOf(const Graph &g, int f) { return dirOfFile(g, f) + fileName(f); } // below the delivery directory
static std::vector<std::string> splitDir(const std::string &d)
{
    std::vector<std::string> v;
    size_t b = 0;
    while (b < d.size()) { size_t e = d.find('/', b); v.push_back(d.substr(b, e - b)); b = e + 1; }
    return v;
}
// the href written in file `from` for file `to`: relative to the directory of the importing file
static std::string hrefOf(const Graph &g, int from, int to)
{
    auto a = splitDir(dirOfFile(g, from)), b = splitDir(dirOfFile(g, to));
    size_t k = 0;
    while (k < a.size() && k < b.size() && a[k] == b[k]) ++k;
    std::string rel;
    for (size_t i = k; i < a.size(); ++i) rel += "../";
    for (size_t i = k; i < b.size(); ++i) rel += b[i] + "/";
    rel += fileName(to);
    if (g.hrefStyle == 1) return "./" + rel;
    if (g.hrefStyle == 2) return (a.empty() ? std::string("a/../") : "../" + a.back() + "/") + rel; // directories a/, a/b/ and s/ always exist
    return rel;
}
static std::string entName(int kind, int k) { return (kind == COMP ? "c" : "u") + std::to_string(k); }

// ------------------------------------------------------------------------------------------- shapes and index decoding
struct Shape
{
    std::string name;
    std::vector<int> nc, nu;
    int maxImports = -1;     // restriction on the number of import entities (-1: none)
    bool childOpt = true;    // concrete components may carry an encapsulated child that uses local units
    bool fixedLocal = false; // concrete entities take one fixed pattern: c_k uses u_k, u_i references u_{i+1}, the last units are base
    bool cnOpt = false;      // concrete components may use local units only through a <cn cellml:units=...> in their math
    bool nest = false;       // additionally every encapsulation forest over the components of every file (imports nested under imports / under concrete components)
    std::vector<std::vector<std::vector<int>>> forests; // per file: all parent vectors
    static std::vector<std::vector<int>> allForests(int C)
    {
        std::vector<std::vector<int>> out;
        std::vector<int> p(C, -1);
        std::function<void(int)> go = [&](int i) {
            if (i == C) {
                for (int a = 0; a < C; ++a) { int x = a, steps = 0; while (x >= 0 && steps++ <= C) x = p[x]; if (x >= 0) return; } // cyclic
                out.push_back(p);
                return;
            }
            for (int v = -1; v < C; ++v) if (v != i) { p[i] = v; go(i + 1); }
        };
        go(0);
        return out;
    }
    // derived
    struct Slot { int f, kind, k, nConc, nImp; };
    std::vector<Slot> slots;
    std::vector<std::pair<int, int>> ctargets, utargets; // import target lists
    std::vector<uint32_t> masks;                         // restricted: import-position masks
    std::vector<uint64_t> maskStart;
    uint64_t total = 0;
    int files() const { return int(nc.size()); }
    static std::vector<int> unitsLocalOptions(int U, int i)
    { // all subsets of the other units, plus self only
        std::vector<int> o;
        std::vector<int> others;
        for (int r = 0; r < U; ++r) if (r != i) others.push_back(r);
        for (int s = 0; s < (1 << others.size()); ++s) {
            int m = 0;
            for (size_t b = 0; b < others.size(); ++b) if (s & (1 << b)) m |= 1 << others[b];
            o.push_back(m);
        }
        o.push_back(1 << i);
        return o;
    }
    void finish()
    {
        for (int f = 0; f < files(); ++f) {
            for (int k = 0; k < nc[f]; ++k) ctargets.push_back({f, k});
            for (int k = 0; k < nu[f]; ++k) utargets.push_back({f, k});
        }
        for (int f = 0; f < files(); ++f) {
            for (int k = 0; k < nc[f]; ++k) slots.push_back({f, COMP, k, fixedLocal ? 1 : 1 + nu[f] * (childOpt ? 2 : 1) + (cnOpt ? nu[f] : 0), int(ctargets.size())});
            for (int k = 0; k < nu[f]; ++k) slots.push_back({f, UNITS, k, fixedLocal ? 1 : int(unitsLocalOptions(nu[f], k).size()), int(utargets.size())});
        }
        for (int f = 0; f < files(); ++f) forests.push_back(nest ? allForests(nc[f]) : std::vector<std::vector<int>> {std::vector<int>(nc[f], -1)});
        if (maxImports < 0) {
            total = 1;
            for (auto &s : slots) total *= uint64_t(s.nConc + s.nImp);
            for (auto &fo : forests) total *= uint64_t(fo.size());
        } else {
            size_t n = slots.size();
            for (uint32_t m = 0; m < (1u << n); ++m) {
                if (__builtin_popcount(m) > maxImports) continue;
                uint64_t sz = 1;
                for (size_t i = 0; i < n; ++i) sz *= uint64_t((m >> i) & 1 ? slots[i].nImp : slots[i].nConc);
                masks.push_back(m);
                maskStart.push_back(total);
                total += sz;
            }
        }
    }
    Graph decode(uint64_t idx) const
    {
        Graph g;
        g.f.resize(files());
        for (int f = 0; f < files(); ++f) { g.f[f].c.resize(nc[f]); g.f[f].u.resize(nu[f]); }
        uint32_t mask = 0;
        bool restricted = maxImports >= 0;
        if (restricted) {
            size_t b = std::upper_bound(maskStart.begin(), maskStart.end(), idx) - maskStart.begin() - 1;
            mask = masks[b];
            idx -= maskStart[b];
        }
        Radix r(idx);
        for (size_t i = 0; i < slots.size(); ++i) {
            const Slot &s = slots[i];
            Ent e;
            int opt;
            bool imp;
            if (restricted) {
                imp = (mask >> i) & 1;
                opt = int(r.take(imp ? s.nImp : s.nConc));
            } else {
                int o = int(r.take(s.nConc + s.nImp));
                imp = o >= s.nConc;
                opt = imp ? o - s.nConc : o;
            }
            if (imp) {
                e.imp = true;
                auto t = (s.kind == COMP ? ctargets : utargets)[opt];
                e.tf = t.first;
                e.tk = t.second;
            } else if (fixedLocal) {
                if (s.kind == COMP) e.local = s.k < nu[s.f] ? 1 + s.k : 0;
                else e.local = s.k + 1 < nu[s.f] ? 1 << (s.k + 1) : 0;
            } else {
                if (s.kind == COMP) {
                    int U = nu[s.f];
                    e.local = opt;
                    if (!childOpt && opt > U) e.local = opt + U; // without the child option the third block (cn) follows the first
                } else e.local = unitsLocalOptions(nu[s.f], s.k)[opt];
            }
            (s.kind == COMP ? g.f[s.f].c : g.f[s.f].u)[s.k] = e;
        }
        for (int f = 0; f < files(); ++f) g.f[f].parent = restricted ? forests[f][0] : forests[f][r.take(forests[f].size())];
        return g;
    }
};

// =========================================================================================== rendering (CellML text)
static const char *NS20 = "http://www.cellml.org/cellml/2.0#";
static const char *NS11 = "http://www.cellml.org/cellml/1.1#";
static std::string render(const Graph &g, int f, FileStatus variant = FS_OK)
{
    const FileSpec &fs = g.f[f];
    int U = int(fs.u.size());
    std::string d = "<?xml version=\"1.0\" encoding=\"UTF-8\"?>\n";
    d += std::string("<model xmlns=\"") + (variant == FS_V11 ? NS11 : NS20) + "\" xmlns:xlink=\"http://www.w3.org/1999/xlink\" name=\"m\">\n";
    for (int k = 0; k < int(fs.c.size()); ++k) {
        const Ent &e = fs.c[k];
        if (e.removed) continue;
        if (e.imp) {
            d += "  <import xlink:href=\"" + hrefOf(g, f, e.tf) + "\">\n    <component name=\"" + entName(COMP, k) + "\" component_ref=\"" + entName(COMP, e.tk) + "\"/>\n  </import>\n";
        } else {
            std::string un = (e.local >= 1 && e.local <= U) ? entName(UNITS, e.local - 1) : "second";
            d += "  <component name=\"" + entName(COMP, k) + "\">\n    <variable name=\"v\" units=\"" + un + "\"/>\n";
            if (e.local > 2 * U) d += "    <math xmlns=\"http://www.w3.org/1998/Math/MathML\" xmlns:cellml=\"" + std::string(NS20) + "\"><apply><eq/><ci>v</ci><cn cellml:units=\"" + entName(UNITS, e.local - 2 * U - 1) + "\">1</cn></apply></math>\n";
            d += "  </component>\n";
            if (e.local > U && e.local <= 2 * U) d += "  <component name=\"" + entName(COMP, k) + "_child\">\n    <variable name=\"w\" units=\"" + entName(UNITS, e.local - U - 1) + "\"/>\n  </component>\n";
        }
    }
    for (int k = 0; k < U; ++k) {
        const Ent &e = fs.u[k];
        if (e.removed) continue;
        if (e.imp) {
            d += "  <import xlink:href=\"" + hrefOf(g, f, e.tf) + "\">\n    <units name=\"" + entName(UNITS, k) + "\" units_ref=\"" + entName(UNITS, e.tk) + "\"/>\n  </import>\n";
        } else {
            d += "  <units name=\"" + entName(UNITS, k) + "\">\n    <unit units=\"second\"/>\n";
            for (int r = 0; r < U; ++r) if (e.local & (1 << r)) d += "    <unit units=\"" + entName(UNITS, r) + "\" exponent=\"2\"/>\n";
            d += "  </units>\n";
        }
    }
    // encapsulation: the forest over the components of this file plus the private child of a "child uses units" component
    bool anyEnc = false;
    {
        int C = int(fs.c.size());
        std::function<bool(int)> hasKids = [&](int k) {
            const Ent &e = fs.c[k];
            if (!e.imp && e.local > U && e.local <= 2 * U) return true;
            for (int j = 0; j < C; ++j) if (!fs.c[j].removed && parentOf(fs, j) == k) return true;
            return false;
        };
        std::function<void(int, int)> emit = [&](int k, int depth) {
            std::string ind(size_t(4 + 2 * depth), ' ');
            if (!hasKids(k)) { d += ind + "<component_ref component=\"" + entName(COMP, k) + "\"/>\n"; return; }
            d += ind + "<component_ref component=\"" + entName(COMP, k) + "\">\n";
            const Ent &e = fs.c[k];
            if (!e.imp && e.local > U && e.local <= 2 * U) d += ind + "  <component_ref component=\"" + entName(COMP, k) + "_child\"/>\n";
            for (int j = 0; j < C; ++j) if (!fs.c[j].removed && parentOf(fs, j) == k) emit(j, depth + 1);
            d += ind + "</component_ref>\n";
        };
        for (int k = 0; k < C; ++k) {
            if (fs.c[k].removed || parentOf(fs, k) >= 0 || !hasKids(k)) continue;
            if (!anyEnc) d += variant == FS_V11 ? "  <group>\n    <relationship_ref relationship=\"encapsulation\"/>\n" : "  <encapsulation>\n";
            anyEnc = true;
            emit(k, 0);
        }
    }
    if (anyEnc) d += variant == FS_V11 ? "  </group>\n" : "  </encapsulation>\n";
    if (variant == FS_PARSEERR) d += "  <bogus/>\n"; // an element the 2.0 parser reports (not an XML error)
    if (variant == FS_VALERR) d += "  <component name=\"9bad\">\n    <variable name=\"x\" units=\"second\"/>\n    <variable name=\"x\" units=\"second\" initial_value=\"abc\"/>\n  </component>\n"; // parser is silent, validator is not
    if (variant == FS_WARN && !anyEnc) d += "  <encapsulation/>\n"; // parser WARNING
    if (variant == FS_WARN && anyEnc) d += "  <import xlink:href=\"nowhere.cellml\"/>\n"; // parser WARNING
    d += "</model>\n";
    return d;
}
static const char *NOT_CELLML = "<?xml version=\"1.0\" encoding=\"UTF-8\"?>\n<html xmlns=\"http://www.w3.org/1999/xhtml\"><body><p name=\"c0\">c0 u0</p></body></html>\n";
static const char *TRUNC_NAME[] = {"0-bytes", "in-xml-declaration", "in-root-start-tag", "after-root-start-tag", "in-child-element", "before-root-end-tag"};
static std::string truncateAt(const std::string &t, int cls)
{
    size_t root = t.find("<model");
    size_t rootEnd = t.find('>', root) + 1;
    switch (cls) {
    case 0: return "";
    case 1: return t.substr(0, 12);
    case 2: return t.substr(0, root + 11);
    case 3: return t.substr(0, rootEnd);
    case 4: { size_t c = t.find('<', rootEnd); return t.substr(0, c + 5); }
    default: return t.substr(0, t.rfind("</model>"));
    }
}
// the text delivered for file f of a (possibly faulted) spec; nullopt = no file
static std::optional<std::string> delivered(const Graph &g, int f)
{
    switch (g.f[f].st) {
    case FS_MISSING: return std::nullopt;
    case FS_NOTXML: return truncateAt(render(g, f), g.f[f].trunc);
    case FS_NOTCELLML: return std::string(NOT_CELLML);
    default: return render(g, f, g.f[f].st);
    }
}

// =========================================================================================== reference model (graph search on the spec)
static std::string pathShape(const Graph &g, const std::vector<Node> &path)
{
    std::string s;
    for (size_t i = 0; i < path.size(); ++i) {
        const Ent &e = entOf(g, path[i]);
        if (i) s += path[i].child ? "/" : ">"; // "/" = encapsulated child of the previous component
        s += path[i].kind == COMP ? "C" : "U";
        s += e.imp ? "i" : "c";
        if (!e.imp && path[i].kind == COMP && e.local > int(g.f[path[i].f].u.size()) && e.local <= 2 * int(g.f[path[i].f].u.size())) s += "k"; // units used by an encapsulated child
    }
    return s;
}

struct Res
{
    bool fail = false, impCycle = false, concCycle = false, either = false;
    bool belowImport = false; // the search went from an import component to a component it encapsulates
    int cycleLen = 0;
    std::string why;  // first reason
    std::string path; // shape of the dependency path on which it was met (C/U = component/units, i/c = import/concrete, k = via an encapsulated child)
    void note(const std::string &w, const std::string &p) { if (why.empty()) { why = w; path = p; } }
};
struct Ref
{
    const Graph &g;
    bool permissive;
    Ref(const Graph &g_, bool p) : g(g_), permissive(p) {}
    bool fileHasEntities(int f) const
    {
        switch (g.f[f].st) {
        case FS_OK: case FS_PARSEERR: case FS_VALERR: case FS_WARN: return true;
        case FS_V11: return permissive;
        default: return false;
        }
    }
    bool exists(Node n) const
    {
        const FileSpec &fs = g.f[n.f];
        int sz = int(n.kind == COMP ? fs.c.size() : fs.u.size());
        return n.k >= 0 && n.k < sz && !entOf(g, n).removed;
    }
    // dependencies of a node that exists in a loadable file; missing ones are reported through `missing`
    void deps(Node n, std::vector<Node> &out, std::vector<std::string> &missing, std::set<int> *needed, Res *r) const
    {
        const Ent &e = entOf(g, n);
        int U = int(g.f[n.f].u.size());
        if (n.kind == COMP) { // the components it encapsulates come with it, whether it is an import or not
            const FileSpec &fs = g.f[n.f];
            for (int j = 0; j < int(fs.c.size()); ++j) if (!fs.c[j].removed && parentOf(fs, j) == n.k) { Node t {n.f, COMP, j}; t.child = true; out.push_back(t); }
        }
        if (e.imp) {
            if (needed) needed->insert(e.tf);
            Node t {e.tf, n.kind, e.tk};
            if (!fileHasEntities(e.tf)) missing.push_back(std::string("file-") + FS_NAME[g.f[e.tf].st]);
            else {
                if (g.f[e.tf].st == FS_PARSEERR && r) r->either = true;
                if (!exists(t)) missing.push_back(n.kind == COMP ? "referenced-component-missing" : "referenced-units-missing");
                else out.push_back(t);
            }
        } else if (n.kind == COMP) {
            if (e.local > 0) {
                Node t {n.f, UNITS, (e.local - 1) % U};
                if (!exists(t)) missing.push_back(e.local > U && e.local <= 2 * U ? "units-used-by-child-component-missing" : "units-used-by-component-missing");
                else out.push_back(t);
            }
        } else {
            for (int b = 0; b < U; ++b) if (e.local & (1 << b)) {
                Node t {n.f, UNITS, b};
                if (!exists(t)) missing.push_back("child-units-missing");
                else out.push_back(t);
            }
        }
    }
    void dfs(Node n, std::vector<Node> &path, Res &r, std::set<int> *needed, std::set<Node> *visited) const
    {
        auto it = std::find(path.begin(), path.end(), n);
        if (it != path.end()) {
            bool anyImp = false;
            for (auto p = it; p != path.end(); ++p) if (entOf(g, *p).imp) anyImp = true;
            (anyImp ? r.impCycle : r.concCycle) = true;
            if (anyImp && !r.cycleLen) r.cycleLen = int(path.end() - it);
            if (anyImp) { auto pp = path; pp.push_back(n); r.note("import-cycle", pathShape(g, pp)); }
            return;
        }
        if (visited) visited->insert(n);
        path.push_back(n);
        std::vector<Node> d;
        std::vector<std::string> miss;
        deps(n, d, miss, needed, &r);
        for (auto &m : miss) { r.fail = true; r.note(m, pathShape(g, path) + ">?"); }
        for (auto &t : d) {
            if (t.child && entOf(g, n).imp) r.belowImport = true;
            dfs(t, path, r, needed, visited);
        }
        path.pop_back();
    }
    Res eval(Node n, std::set<int> *needed = nullptr, std::set<Node> *visited = nullptr) const
    {
        Res r;
        std::vector<Node> path;
        dfs(n, path, r, needed, visited);
        return r;
    }
    bool definitelyFails(Node n) const { Res r = eval(n); return r.fail || r.impCycle; }
    std::vector<Node> rootEntities() const
    {
        std::vector<Node> v;
        for (int k = 0; k < int(g.f[0].c.size()); ++k) v.push_back({0, COMP, k});
        for (int k = 0; k < int(g.f[0].u.size()); ++k) v.push_back({0, UNITS, k});
        return v;
    }
    // files reachable from the root through ANY import element of a reached file, and whether that file graph has a cycle
    bool fileCycle(std::set<int> *reach = nullptr) const
    {
        int F = int(g.f.size());
        std::vector<std::set<int>> adj(F);
        std::set<int> seen {0};
        std::vector<int> todo {0};
        while (!todo.empty()) {
            int f = todo.back();
            todo.pop_back();
            if (!fileHasEntities(f)) continue;
            auto edge = [&](const Ent &e) { if (e.imp && !e.removed) { adj[f].insert(e.tf); if (seen.insert(e.tf).second) todo.push_back(e.tf); } };
            for (auto &e : g.f[f].c) edge(e);
            for (auto &e : g.f[f].u) edge(e);
        }
        if (reach) *reach = seen;
        std::vector<int> color(F, 0);
        std::function<bool(int)> cyc = [&](int f) {
            color[f] = 1;
            for (int t : adj[f]) { if (color[t] == 1) return true; if (color[t] == 0 && cyc(t)) return true; }
            color[f] = 2;
            return false;
        };
        return cyc(0);
    }
};
enum Expect { EX_TRUE, EX_FALSE, EX_EITHER };
struct Verdict
{
    Expect expect = EX_TRUE;
    std::string cls;               // classification for the outcome histogram
    std::string why, whyPath;      // reason for EX_FALSE and the shape of the path on which it sits
    bool crashProne = false;       // an ordinary-units cycle is reachable from a root entity
    bool impCycleReachable = false; // an import cycle is reachable from a root entity
    bool belowImport = false;       // some reachable component is encapsulated by an import component
    bool rootHasImports = false;
    std::set<int> needed;          // files that must be loaded
    std::vector<Node> failingRoot; // root imports that cannot be satisfied
    int cycleLen = 0;
    bool fileCycleOnly = false, fileCycle = false, connected = false;
};
static Verdict judge(const Graph &g, bool permissive)
{
    Ref ref(g, permissive);
    Verdict v;
    bool anyFail = false, anyImpCycle = false, anyConc = false, anyEither = false;
    for (auto n : ref.rootEntities()) {
        const Ent &e = entOf(g, n);
        Res r = ref.eval(n, e.imp ? &v.needed : nullptr);
        if (r.concCycle) v.crashProne = true;
        if (r.impCycle) v.impCycleReachable = true;
        if (r.belowImport) v.belowImport = true;
        if (!e.imp) continue;
        v.rootHasImports = true;
        if (r.fail || r.impCycle) { v.failingRoot.push_back(n); if (v.why.empty()) { v.why = r.why; v.whyPath = r.path; } }
        if (r.impCycle && !v.cycleLen) v.cycleLen = r.cycleLen;
        anyFail |= r.fail;
        anyImpCycle |= r.impCycle;
        anyConc |= r.concCycle;
        anyEither |= r.either;
    }
    std::set<int> reach;
    bool fc = ref.fileCycle(&reach);
    v.fileCycle = fc;
    v.connected = int(reach.size()) == int(g.f.size());
    if (anyFail || anyImpCycle) {
        v.expect = EX_FALSE;
        v.cls = anyImpCycle && !anyFail ? "entity-cycle:import-cycle-length-" + std::to_string(v.cycleLen) : anyImpCycle ? "missing+import-cycle" : "unsatisfiable:" + v.why;
    } else if (anyConc) {
        v.expect = EX_EITHER;
        v.cls = "entity-cycle:ordinary-units-cycle-in-import-closure";
    } else if (anyEither) {
        v.expect = EX_EITHER;
        v.cls = "needed-file-has-2.0-parse-errors";
    } else if (fc) {
        v.expect = EX_EITHER;
        v.fileCycleOnly = true;
        v.cls = "file-level-cycle-without-entity-cycle";
    } else {
        v.expect = EX_TRUE;
        v.cls = !v.rootHasImports ? "resolvable:no-imports-in-root" : "resolvable";
        if (v.crashProne) v.cls += "+ordinary-units-cycle-in-root";
    }
    return v;
}

// =========================================================================================== SIGSEGV guard and symbolisation (for forked children)
namespace guard {
static sigjmp_buf jb;
static volatile sig_atomic_t armed = 0;
static char altstack[1 << 16];
static uintptr_t stackTop = 0;
static volatile uintptr_t g_pc, g_sp, g_addr;
static const int NWORDS = 8192; // the 64 KB of stack nearest to the overflow
static uintptr_t g_words[NWORDS];
static volatile int g_nwords;
static uintptr_t textLo = 0, textHi = 0; // address range of the functions of this executable
static const int NCHAIN = 1024; // return addresses along the frame-pointer chain (meaningful where frame pointers are kept: asan flavour)
static uintptr_t g_chain[NCHAIN];
static volatile int g_nchain;
static void dieUnguarded();
static volatile sig_atomic_t inHandler = 0;
static volatile int hstage = 0;
static volatile uintptr_t hlo = 0, hcur = 0;
// Not instrumented: it copies raw stack memory (poisoned red zones included).
__attribute__((no_sanitize("address", "undefined"))) static void handler(int, siginfo_t *si, void *ucv)
{
    if (inHandler) { // a fault inside the handler itself
        char b[200];
        int k = snprintf(b, sizeof b, "HANDLER-FAULT stage=%d addr=%p sp=%lx lo=%lx hi=%lx cur=%lx\n", int(hstage), si->si_addr, (unsigned long)g_sp, (unsigned long)hlo, (unsigned long)stackTop, (unsigned long)hcur);
        if (write(2, b, size_t(k)) < 0) {}
        _exit(97);
    }
    inHandler = 1;
    hstage = 1;
    ucontext_t *uc = static_cast<ucontext_t *>(ucv);
    g_pc = uintptr_t(uc->uc_mcontext.gregs[REG_RIP]);
    g_sp = uintptr_t(uc->uc_mcontext.gregs[REG_RSP]);
    g_addr = uintptr_t(si->si_addr);
    // lowest readable stack address: on an overflow the stack pointer (and the faulting address) are already in the guard gap
    uintptr_t lo = g_sp & ~uintptr_t(4095), hi = stackTop;
    {
        unsigned char vec;
        int tries = 0;
        while (lo < hi && tries++ < 4096 && mincore(reinterpret_cast<void *>(lo), 4096, &vec) != 0) lo += 4096;
        if (lo < g_sp) lo = g_sp;
    }
    hlo = lo;
    hstage = 2;
    int n = 0;
    if (lo < hi && hi - lo < (64u << 20)) {
        uintptr_t p = (lo + 7) & ~uintptr_t(7);
        for (; n < NWORDS && p <= hi - 8; p += 8) { hcur = p; g_words[n++] = *reinterpret_cast<uintptr_t *>(p); }
    }
    g_nwords = n;
    hstage = 3;
    int m = 0;
    if (lo < hi && hi - lo < (64u << 20)) {
        // start at the frame pointer; when the innermost frames belong to code without frame pointers the chain is broken there:
        // then start at the first stack slot that looks like a frame record (saved frame pointer above it, return address in this executable)
        uintptr_t start = uintptr_t(uc->uc_mcontext.gregs[REG_RBP]);
        uintptr_t scan = (lo + 7) & ~uintptr_t(7);
        for (int attempt = 0; attempt < 4096 && m < 64; ++attempt) {
            m = 0;
            uintptr_t bp = start;
            while (m < NCHAIN && bp >= lo && bp <= hi - 16 && (bp & 7) == 0) {
                hcur = bp;
                uintptr_t ret = reinterpret_cast<uintptr_t *>(bp)[1];
                uintptr_t nb = reinterpret_cast<uintptr_t *>(bp)[0];
                if (ret < textLo || ret >= textHi) break;
                g_chain[m++] = ret;
                if (nb <= bp) break;
                bp = nb;
            }
            if (m >= 64) break;
            // next candidate
            bool found = false;
            hstage = 4;
            for (; scan <= hi - 16; scan += 8) {
                hcur = scan;
                uintptr_t nb = reinterpret_cast<uintptr_t *>(scan)[0], ret = reinterpret_cast<uintptr_t *>(scan)[1];
                if (nb > scan && nb <= hi - 16 && (nb & 7) == 0 && ret >= textLo && ret < textHi) { start = scan; scan += 8; found = true; break; }
            }
            if (!found) break;
        }
    }
    g_nchain = m;
    hstage = 5;
    inHandler = 0;
    if (armed) { armed = 0; siglongjmp(jb, 1); }
    dieUnguarded();
}
static void loadSymbols();
// A step that does not return: the CPU-time timer writes the prepared record and ends this worker (the supervisor resumes after the case).
static char hangRecord[1536];
static volatile size_t hangRecordLen = 0;
static void hangHandler(int)
{
    if (hangRecordLen && write(1, hangRecord, hangRecordLen) < 0) {}
    static const char msg[] = "C07: a library call did not return within its CPU-time budget; the record is on stdout\n";
    if (write(2, msg, sizeof msg - 1) < 0) {}
    _exit(77);
}
static void armHang(int seconds)
{
    struct itimerval it;
    memset(&it, 0, sizeof it);
    it.it_value.tv_sec = seconds;
    setitimer(ITIMER_VIRTUAL, &it, nullptr);
}
static void install()
{
    {
        struct sigaction sa;
        memset(&sa, 0, sizeof sa);
        sa.sa_handler = hangHandler;
        sigemptyset(&sa.sa_mask);
        sigaction(SIGVTALRM, &sa, nullptr);
    }
    loadSymbols(); // before any crash: the handler needs the text range
    stack_t ss;
    ss.ss_sp = altstack;
    ss.ss_size = sizeof altstack;
    ss.ss_flags = 0;
    sigaltstack(&ss, nullptr);
    struct sigaction sa;
    memset(&sa, 0, sizeof sa);
    sa.sa_sigaction = handler;
    sa.sa_flags = SA_SIGINFO | SA_ONSTACK | SA_NODEFER;
    sigemptyset(&sa.sa_mask);
    sigaction(SIGSEGV, &sa, nullptr);
    sigaction(SIGBUS, &sa, nullptr);
}
// function symbols of this executable
struct Sym { uintptr_t a, sz; std::string name; };
static std::vector<Sym> syms;
static uintptr_t loadBase = 0;
static int phdrCb(struct dl_phdr_info *info, size_t, void *) { loadBase = info->dlpi_addr; return 1; }
static void loadSymbols()
{
    static bool done = false;
    if (done) return;
    done = true;
    dl_iterate_phdr(phdrCb, nullptr);
    std::string img = readFileTail("/proc/self/exe", 0);
    if (img.size() < sizeof(Elf64_Ehdr)) return;
    auto *eh = reinterpret_cast<const Elf64_Ehdr *>(img.data());
    if (eh->e_shoff == 0 || eh->e_shoff + uint64_t(eh->e_shnum) * sizeof(Elf64_Shdr) > img.size()) return;
    auto *sh = reinterpret_cast<const Elf64_Shdr *>(img.data() + eh->e_shoff);
    for (int i = 0; i < eh->e_shnum; ++i) {
        if (sh[i].sh_type != SHT_SYMTAB) continue;
        auto *st = reinterpret_cast<const Elf64_Sym *>(img.data() + sh[i].sh_offset);
        size_t n = sh[i].sh_size / sizeof(Elf64_Sym);
        const char *str = img.data() + sh[sh[i].sh_link].sh_offset;
        for (size_t k = 0; k < n; ++k) if (ELF64_ST_TYPE(st[k].st_info) == STT_FUNC && st[k].st_value) syms.push_back({uintptr_t(st[k].st_value), uintptr_t(st[k].st_size), str + st[k].st_name});
    }
    std::sort(syms.begin(), syms.end(), [](const Sym &a, const Sym &b) { return a.a < b.a; });
    if (!syms.empty()) { textLo = loadBase + syms.front().a; textHi = loadBase + syms.back().a + syms.back().sz + 1; }
}
static uintptr_t loadBaseOrZero() { loadSymbols(); return loadBase; }
static std::string symbolOf(uintptr_t pc, uintptr_t *start = nullptr)
{
    loadSymbols();
    uintptr_t off = pc - loadBase;
    auto it = std::upper_bound(syms.begin(), syms.end(), off, [](uintptr_t v, const Sym &s) { return v < s.a; });
    if (it == syms.begin()) return "";
    --it;
    if (off >= it->a + std::max<uintptr_t>(it->sz, 1)) return "";
    if (start) *start = loadBase + it->a;
    int status = 0;
    char *d = abi::__cxa_demangle(it->name.c_str(), nullptr, nullptr, &status);
    std::string s = (status == 0 && d) ? d : it->name;
    free(d);
    size_t p = s.find('(');
    if (p != std::string::npos) s = s.substr(0, p);
    return s;
}
// class of the crash that just took the guard's longjmp: kind + the recursing libcellml function
static std::string describe()
{
    bool nearSp = g_addr + 65536 >= g_sp && g_addr < g_sp + 65536;
    struct rlimit rl;
    getrlimit(RLIMIT_STACK, &rl);
    bool deep = stackTop > g_sp && (stackTop - g_sp) * 10 > uintptr_t(rl.rlim_cur) * 8;
    std::string kind = (nearSp && deep) ? "stack-overflow" : (g_addr < 4096 ? "segv-null-page" : "segv");
    // The recursing function is the libcellml function whose return addresses fill the stack next to the overflow. Among the
    // functions that reach half the highest count (mutual recursion) the alphabetically first is named, so that the class
    // does not depend on where exactly the stack ran out.
    std::map<std::string, int> cnt;
    {
        std::string s = symbolOf(g_pc);
        if (s.rfind("libcellml::", 0) == 0) ++cnt[s];
    }
    std::map<uintptr_t, int> byAddr;
    bool useChain = g_nchain >= 64;
    for (int i = 0; i < (useChain ? g_nchain : g_nwords); ++i) {
        uintptr_t w = useChain ? g_chain[i] : g_words[i];
        if (w < loadBaseOrZero() || w > loadBaseOrZero() + (uintptr_t(1) << 32)) continue;
        ++byAddr[w];
    }
    // A stale return address left in a slot the recursion does not write can occur once per frame too. The real thing is told
    // apart by the instruction before it: a direct call (E8 rel32) to the very function the address lies in.
    std::map<std::string, int> selfCalls;
    for (auto &kv : byAddr) {
        uintptr_t start = 0;
        std::string s = symbolOf(kv.first, &start);
        if (s.rfind("libcellml::", 0) != 0) continue;
        cnt[s] += kv.second;
        const unsigned char *ip = reinterpret_cast<const unsigned char *>(kv.first);
        if (kv.first >= textLo + 5 && kv.first < textHi && ip[-5] == 0xE8) {
            int32_t rel;
            memcpy(&rel, ip - 4, 4);
            if (uintptr_t(kv.first + rel) == start) selfCalls[s] += kv.second;
        }
    }
    if (!selfCalls.empty() && !useChain) cnt = selfCalls;
    std::string best = "?";
    int top = 0;
    for (auto &kv : cnt) top = std::max(top, kv.second);
    for (auto &kv : cnt) if (kv.second * 2 >= top && top > 0) { best = kv.first; break; }
    return "crash:" + kind + "@" + best;
}
static void dieUnguarded()
{
    std::string d = "UNGUARDED " + describe() + "\n";
    if (write(2, d.data(), d.size()) < 0) {}
    _exit(98);
}
} // namespace guard

// =========================================================================================== delivery
static std::string g_scratch; // per-process directory
static void rmScratch()
{
    if (g_scratch.empty()) return;
    std::string cmd = "rm -rf '" + g_scratch + "'";
    if (system(cmd.c_str()) != 0) {}
}
static pid_t g_owner = 0;
static void rmScratchAtExit() { if (getpid() == g_owner) rmScratch(); }
static const std::string &scratch()
{
    if (g_scratch.empty()) {
        const char *s = getenv("VERIF_SCRATCH");
        g_scratch = std::string(s ? s : "/verif/build/scratch") + "/" + std::to_string(getpid());
        std::string cmd = "mkdir -p '" + g_scratch + "/w/a/b' '" + g_scratch + "/w/s' '" + g_scratch + "/empty/a/b' '" + g_scratch + "/empty/s'";
        if (system(cmd.c_str()) != 0) { fprintf(stderr, "cannot create %s\n", g_scratch.c_str()); exit(3); }
        g_owner = getpid();
        atexit(rmScratchAtExit);
    }
    return g_scratch;
}
static std::map<std::string, std::string> g_onDisk; // relative path below w/ -> content of the file that is there
static bool writeFilesOnce(const std::vector<std::optional<std::string>> &texts, const Graph &g)
{
    std::string dir = scratch() + "/w/";
    std::map<std::string, std::string> want;
    for (size_t j = 0; j < texts.size(); ++j) if (texts[j]) want[relPathOf(g, int(j))] = *texts[j];
    for (auto it = g_onDisk.begin(); it != g_onDisk.end();) {
        if (!want.count(it->first)) { unlink((dir + it->first).c_str()); it = g_onDisk.erase(it); } else ++it;
    }
    for (auto &kv : want) {
        auto have = g_onDisk.find(kv.first);
        if (have != g_onDisk.end() && have->second == kv.second) continue;
        std::string path = dir + kv.first;
        // (no O_TRUNC on an existing file: ext4 answers truncate-then-write with a synchronous flush, 3 ms per file here)
        bool exists = have != g_onDisk.end();
        if (exists && kv.second.empty()) { unlink(path.c_str()); exists = false; }
        int fd = open(path.c_str(), exists ? O_WRONLY : (O_WRONLY | O_CREAT | O_EXCL), 0644);
        bool ok = fd >= 0 && write(fd, kv.second.data(), kv.second.size()) == ssize_t(kv.second.size()) && (!exists || ftruncate(fd, off_t(kv.second.size())) == 0);
        if (fd >= 0) close(fd);
        if (!ok) return false;
        g_onDisk[kv.first] = kv.second;
    }
    return true;
}
static void writeFiles(const std::vector<std::optional<std::string>> &texts, const Graph &g)
{
    if (writeFilesOnce(texts, g)) return;
    // the directory was disturbed from outside (somebody cleaning build/scratch): start it afresh, once
    std::string cmd = "rm -rf '" + scratch() + "/w'; mkdir -p '" + scratch() + "/w/a/b' '" + scratch() + "/w/s' '" + scratch() + "/empty/a/b' '" + scratch() + "/empty/s'";
    if (system(cmd.c_str()) != 0) {}
    g_onDisk.clear();
    if (!writeFilesOnce(texts, g)) { fprintf(stderr, "cannot write the scenario files under %s: %s\n", scratch().c_str(), strerror(errno)); exit(3); }
}
// "x/./y", "x/d/../y" -> "x/y" (what the operating system makes of the path, as long as d exists)
static std::string lexicallyNormal(const std::string &path)
{
    std::vector<std::string> out;
    size_t b = 0;
    bool abs = !path.empty() && path[0] == '/';
    while (b <= path.size()) {
        size_t e = path.find('/', b);
        if (e == std::string::npos) e = path.size();
        std::string seg = path.substr(b, e - b);
        if (seg == "..") { if (!out.empty() && out.back() != "..") out.pop_back(); else out.push_back(seg); }
        else if (!seg.empty() && seg != ".") out.push_back(seg);
        b = e + 1;
    }
    std::string r = abs ? "/" : "";
    for (size_t i = 0; i < out.size(); ++i) r += (i ? "/" : "") + out[i];
    return r;
}

// =========================================================================================== the scenario runner
struct Mode
{
    bool disk = true;
    bool strict = true;
    std::string tag() const { return std::string(disk ? "disk" : "library") + (strict ? "" : "+permissive"); }
};
static ModelPtr modelOfEntity(const ParentedEntityPtr &e)
{ // public getters only
    ParentedEntityPtr p = e;
    int guardN = 0;
    while (p && guardN++ < 64) {
        if (auto m = std::dynamic_pointer_cast<Model>(p)) return m;
        p = p->parent();
    }
    return nullptr;
}
// Where the library stopped looking, read off the shape of the dependency path to the problem it did not see.
static std::string blindSpot(const std::string &path)
{
    if (path.find("Cck>") != std::string::npos || path.find("/Cc>") != std::string::npos) return "units-used-by-an-encapsulated-child-of-an-imported-component";
    // inside an imported model nothing looks at the components an IMPORT component encapsulates (nor does isResolved() in the root model)
    if (path.find("Ci/") != std::string::npos) return "components-encapsulated-by-an-import-component";
    // fetchUnits does not look into concrete units reached from a concrete component, nor into the concrete children of concrete units
    if (path.find("Cc>Uc>") != std::string::npos || path.find("Uc>Uc") != std::string::npos) return "units-referenced-by-concrete-units-that-are-themselves-reached-through-a-concrete-entity";
    return "";
}

// One worker reports the first few members of a violation class in full and counts the rest (the classes are what is judged; the
// unchanged tree produces some of them tens of thousands of times).
static void report(Ctx &c, const std::string &sig, json detail = json::object())
{
    static std::map<std::string, int> seen;
    if (seen[sig]++ < 3) c.violation(sig, detail);
    else { ++c.violations; c.count("repeats_not_printed"); c.count("n:" + sig); }
}

static const int HANG_SECONDS = 1; // CPU time; an ordinary call takes well under 10 ms

struct Session
{
    Ctx &c;
    Mode mode;
    bool guarded;            // inside a forked child: steps are protected by the SIGSEGV guard
    std::string situation;   // appended to signatures: fault class or "fault-free"
    ModelPtr root;
    ImporterPtr imp;
    std::vector<ModelPtr> libModels; // library mode: what the harness added, by file
    std::string base;
    json detail;
    std::set<std::string> crashedSteps;
    std::string inputClass = "acyclic-input"; // appended to crash signatures: what the reference sees in the input
    volatile int *progress = nullptr; // shared with the parent of a forked child

    const Graph *lay = nullptr;                             // the spec being delivered (for its directory layout)
    std::string top;                                         // the delivery directory
    std::vector<std::pair<std::string, int>> explicitKeys;   // library mode: (path below the delivery directory, file) to register instead of the bare file names
    size_t addedCount = 0;
    Session(Ctx &c_, Mode m, bool guarded_, const std::string &sit, const Graph &g) : c(c_), mode(m), guarded(guarded_), situation(sit), lay(&g)
    {
        top = mode.disk ? scratch() + "/w/" : scratch() + "/empty/";
        base = top + dirOfFile(g, 0);
    }
    std::string sig(const std::string &what) const { return what + ":" + mode.tag() + ":" + situation; }

    template<class F> bool step(const char *name, int id, F f)
    {
        if (progress) *progress = id;
        if (!guarded) { f(); return true; }
        {
            int n = snprintf(guard::hangRecord, sizeof guard::hangRecord,
                             "{\"v\":1,\"family\":\"%s\",\"i\":%llu,\"sig\":\"step=%s:hang:%s\",\"detail\":{\"mode\":\"%s\",\"situation\":\"%s\",\"what\":\"the call did not return within %d s of CPU time\"}}\n",
                             c.family.c_str(), (unsigned long long)c.index, name, inputClass.c_str(), mode.tag().c_str(), situation.c_str(), HANG_SECONDS);
            guard::hangRecordLen = n > 0 && size_t(n) < sizeof guard::hangRecord ? size_t(n) : 0;
        }
        if (sigsetjmp(guard::jb, 1) == 0) {
            guard::armed = 1;
            guard::armHang(HANG_SECONDS);
            f();
            guard::armHang(0);
            guard::armed = 0;
            return true;
        }
        guard::armHang(0);
        // the step crashed and the guard brought us back
        std::string cs = guard::describe();
        crashedSteps.insert(name);
        json d = detail;
        d["step"] = name;
        report(c, std::string("step=") + name + ":" + cs + ":" + inputClass, d);
        c.outcome(std::string("crash-in:") + name);
        return false;
    }

    bool parseRoot(const std::string &text)
    {
        auto parser = Parser::create(true);
        root = parser->parseModel(text);
        c.logger(parser, "parser");
        if (!root || parser->errorCount() != 0) { report(c, "HARNESS:root-text-not-parsed", {{"issues", issuesJson(parser)}, {"text", safe(text)}}); return false; }
        return true;
    }
    void newImporter() { imp = Importer::create(mode.strict); }
    // library mode: (re)fill the library with freshly parsed models; texts without value are left out
    bool fillLibrary(const std::vector<std::optional<std::string>> &texts)
    {
        libModels.assign(texts.size(), nullptr);
        addedCount = 0;
        if (!explicitKeys.empty()) {
            // one model object per key, as loading from disk would make them
            for (auto &kj : explicitKeys) {
                if (kj.second < 0 || kj.second >= int(texts.size()) || !texts[kj.second]) continue;
                auto parser = Parser::create(true);
                auto m = parser->parseModel(*texts[kj.second]);
                if (!m || parser->errorCount() != 0) { report(c, "HARNESS:library-text-not-parsed", {{"issues", issuesJson(parser)}}); return false; }
                libModels[kj.second] = m;
                if (!imp->addModel(m, top + kj.first)) { report(c, sig("library:addModel-refused-new-key"), detail); return false; }
                ++addedCount;
            }
            return true;
        }
        for (size_t j = 0; j < texts.size(); ++j) {
            if (!texts[j]) continue;
            auto parser = Parser::create(true);
            auto m = parser->parseModel(*texts[j]);
            c.logger(parser, "parser");
            if (!m || parser->errorCount() != 0) { report(c, "HARNESS:library-text-not-parsed", {{"issues", issuesJson(parser)}}); return false; }
            libModels[j] = m;
            if (!imp->addModel(m, fileName(int(j)))) { report(c, sig("library:addModel-refused-new-key"), detail); return false; }
            ++addedCount;
        }
        return true;
    }
    // the file of the graph a library key designates: the key, read as a path, must lead to that file
    int fileOfKey(const std::string &key) const
    {
        std::string k = lexicallyNormal(key), t = lexicallyNormal(top);
        if (k.rfind(t + "/", 0) == 0) k = k.substr(t.size() + 1);
        else if (!k.empty() && k[0] == '/') return -1;
        for (size_t j = 0; j < lay->f.size(); ++j) if (k == relPathOf(*lay, int(j))) return int(j);
        return -1;
    }
    bool libraryHoldsFile(int j) const
    {
        size_t n = imp->libraryCount();
        for (size_t i = 0; i < n && i < 64; ++i) if (fileOfKey(imp->key(i)) == j) return true;
        return false;
    }
    int fileOfModel(const ModelPtr &m) const
    {
        if (!m) return -1;
        if (m == root) return 0;
        size_t n = imp->libraryCount();
        for (size_t i = 0; i < n && i < 64; ++i) if (imp->library(i) == m) return fileOfKey(imp->key(i));
        for (size_t j = 0; j < libModels.size(); ++j) if (libModels[j] == m) return int(j);
        return -1;
    }
    // maps an issue item to the spec entity it designates (an import element), if any
    std::optional<Node> nodeOfItem(const Graph &g, const IssuePtr &is) const
    {
        auto it = is->item();
        if (!it) return std::nullopt;
        auto byName = [&](const ModelPtr &m, int kind, const std::string &name) -> std::optional<Node> {
            int f = fileOfModel(m);
            if (f < 0) return std::nullopt;
            int k = -1;
            char ch = 0;
            if (sscanf(name.c_str(), "%c%d", &ch, &k) != 2 || entName(kind, k) != name) return std::nullopt;
            Node n {f, kind, k};
            if (k >= int(kind == COMP ? g.f[f].c.size() : g.f[f].u.size())) return std::nullopt;
            return n;
        };
        if (auto u = it->units()) return byName(modelOfEntity(u), UNITS, u->name());
        if (auto cp = it->component()) return byName(modelOfEntity(cp), COMP, cp->name());
        if (auto src = it->importSource()) {
            std::vector<ModelPtr> ms {root};
            size_t n = imp->libraryCount();
            for (size_t i = 0; i < n && i < 64; ++i) ms.push_back(imp->library(i));
            for (auto &m : ms) {
                if (!m) continue;
                for (size_t i = 0; i < m->unitsCount(); ++i) if (m->units(i)->isImport() && m->units(i)->importSource() == src) return byName(m, UNITS, m->units(i)->name());
                std::vector<ComponentPtr> todo;
                for (size_t i = 0; i < m->componentCount(); ++i) todo.push_back(m->component(i));
                for (size_t q = 0; q < todo.size() && q < 256; ++q) {
                    if (todo[q]->isImport() && todo[q]->importSource() == src) return byName(m, COMP, todo[q]->name());
                    for (size_t i = 0; i < todo[q]->componentCount(); ++i) todo.push_back(todo[q]->component(i));
                }
            }
        }
        return std::nullopt;
    }
    void checkLibrary(const Graph &g, const Verdict &v, bool resolvedOk, const std::vector<std::optional<std::string>> &texts, bool judgeNeeded)
    {
        size_t n = imp->libraryCount();
        std::set<std::string> keys;
        bool bad = false;
        std::string what;
        for (size_t i = 0; i < n && i < 64; ++i) {
            std::string k = imp->key(i);
            if (k.empty()) { bad = true; what = "key(i) empty for i < libraryCount()"; }
            if (!keys.insert(k).second) { bad = true; what = "duplicate key"; }
            if (imp->library(i) != imp->library(k)) { bad = true; what = "library(i) != library(key(i))"; }
            int j = fileOfKey(k);
            if (j < 0 || j >= int(g.f.size())) { bad = true; what = "key does not name a file of the graph: " + k; }
            else if (!texts[j]) { bad = true; what = "library holds a model for an absent file: " + k; }
        }
        if (!imp->key(n).empty() || imp->library(n) != nullptr) { bad = true; what = "key(count)/library(count) not empty"; }
        if (bad) report(c, sig("library:incoherent"), {{"what", what}, {"case", detail}});
        if (mode.disk && resolvedOk && v.expect == EX_TRUE && judgeNeeded) {
            bool missing = false, extra = false;
            for (int j : v.needed) if (!libraryHoldsFile(j)) missing = true;
            for (auto &k : keys) if (!v.needed.count(fileOfKey(k))) extra = true;
            if (missing) report(c, sig("library:needed-file-not-in-library-after-success"), detail);
            c.outcome(extra ? "library:holds-more-than-needed" : "library:exactly-the-needed-files");
        }
        if (!mode.disk) {
            size_t added = addedCount;
            if (explicitKeys.empty()) { added = 0; for (auto &m : libModels) if (m) ++added; }
            if (n != added) report(c, sig("library:count-differs-from-models-added"), {{"count", n}, {"added", added}, {"case", detail}});
        }
    }
    // the first import node in the reference's closure that the library left without a model, as a path from a root entity
    std::string firstUnresolvedPath(const Graph &g)
    {
        Ref ref(g, !mode.strict);
        std::string found;
        std::vector<const Model *> inst; // the model instance each path element lives in (the root and the library copy of f0 are two)
        std::function<bool(Node, std::vector<Node> &, const ModelPtr &)> walk = [&](Node n, std::vector<Node> &path, const ModelPtr &m) -> bool {
            if (!m || path.size() > 12) return false;
            for (size_t i = 0; i < path.size(); ++i) if (path[i] == n && inst[i] == m.get()) return false;
            path.push_back(n);
            inst.push_back(m.get());
            const Ent &e = entOf(g, n);
            ModelPtr next = m;
            if (e.imp) {
                ImportedEntityPtr ie;
                if (n.kind == COMP) ie = m->component(entName(COMP, n.k), true); else ie = m->units(entName(UNITS, n.k));
                if (!ie || !ie->isImport() || !ie->importSource() || !ie->importSource()->hasModel()) { found = pathShape(g, path); return true; }
                next = ie->importSource()->model();
            }
            std::vector<Node> d;
            std::vector<std::string> miss;
            ref.deps(n, d, miss, nullptr, nullptr);
            for (auto &t : d) if (walk(t, path, (t.child || !e.imp) ? m : next)) return true;
            path.pop_back();
            inst.pop_back();
            return false;
        };
        for (auto n : ref.rootEntities()) {
            std::vector<Node> path;
            if (walk(n, path, root)) break;
        }
        return found.empty() ? "?" : found;
    }

    // one resolveImports call, judged. Returns: 1 true, 0 false, -1 crashed
    int resolve(const Graph &g, const Verdict &v, const std::vector<std::optional<std::string>> &texts, const std::string &phase, bool judgeTruth = true)
    {
        volatile int r = -1;
        if (!step("resolveImports", 1, [&] { r = imp->resolveImports(root, base) ? 1 : 0; })) return -1;
        c.logger(imp, "importer");
        ++c.judged;
        std::string ph = phase.empty() ? "" : phase + ":";
        if (c.verbose) printf("# [%s %s] %sresolveImports -> %d (reference: %s); issues %s; library %zu\n", mode.tag().c_str(), situation.c_str(), ph.c_str(), int(r), v.cls.c_str(), issuesJson(imp).dump().c_str(), imp->libraryCount());
        c.outcome(ph + v.cls + (r ? ":true" : ":false"));
        if (judgeTruth && v.expect == EX_TRUE && !r) report(c, sig(ph + "resolve:false-although-satisfiable"), {{"issues", issuesJson(imp)}, {"case", detail}});
        if (judgeTruth && v.expect == EX_FALSE && r) {
            std::string b = blindSpot(v.whyPath);
            json d = {{"case", detail}, {"path", v.whyPath}, {"why", v.why}};
            if (!b.empty()) report(c, ph + "resolve:true-although-unsatisfiable:blind-spot=" + b, d);
            else report(c, sig(ph + "resolve:true-although-unsatisfiable:" + v.why + ":path=" + v.whyPath), d);
        }
        volatile int un = -1;
        bool unOk = step("hasUnresolvedImports", 2, [&] { un = root->hasUnresolvedImports() ? 1 : 0; });
        if (c.verbose) printf("#    hasUnresolvedImports -> %d\n", int(un));
        bool excluded = v.fileCycleOnly; // the statement excludes these graphs: termination and issue coherence only
        if (excluded) judgeTruth = false;
        if (r) {
            if (unOk) {
                if (un == 1 && judgeTruth) {
                    std::string fp = firstUnresolvedPath(g);
                    // every import bound to a model, yet unresolved, in a graph the reference calls unsatisfiable: the model is (rightly) unresolved
                    // because of the failure resolveImports did not see - name the class after the path to THAT failure, not after the diamond defect
                    if (fp == "?" && v.expect == EX_FALSE && !v.whyPath.empty()) fp = v.whyPath;
                    std::string b = blindSpot(fp);
                    json d = {{"issues", issuesJson(imp)}, {"case", detail}, {"path", fp}};
                    if (!b.empty()) report(c, ph + "resolve:true-but-hasUnresolvedImports:blind-spot=" + b, d);
                    else if (fp == "?") report(c, ph + "resolve:true-but-hasUnresolvedImports:every-import-in-the-closure-has-a-model", d);
                    else report(c, sig(ph + "resolve:true-but-hasUnresolvedImports:path=" + fp), d);
                }
                if (un == 1) r = 2; // true, yet unresolved
            } else r = 3; // true, unknown
            if (r == 1 && v.expect == EX_TRUE && judgeTruth) {
                // every root import is bound to the model stored under the key of its target file
                for (auto n : Ref(g, !mode.strict).rootEntities()) {
                    const Ent &e = entOf(g, n);
                    if (!e.imp) continue;
                    ImportedEntityPtr ie;
                    if (n.kind == COMP) ie = root->component(entName(COMP, n.k)); else ie = root->units(entName(UNITS, n.k));
                    auto bound = ie && ie->importSource() ? ie->importSource()->model() : nullptr;
                    if (!bound || fileOfModel(bound) != e.tf || bound == root) report(c, sig(ph + "resolve:import-source-not-bound-to-the-library-model-of-its-file"), detail);
                }
            }
        } else {
            if (imp->issueCount() == 0) report(c, sig(ph + "resolve:false-without-any-issue"), detail);
            else if (v.expect == EX_FALSE && judgeTruth && !v.fileCycle) { // (with files importing from each other the library may blame the file-level cycle)
                Ref ref(g, !mode.strict);
                bool onFailing = false, rootCovered = false;
                for (size_t i = 0; i < imp->issueCount(); ++i) {
                    auto n = nodeOfItem(g, imp->issue(i));
                    if (n && entOf(g, *n).imp && ref.definitelyFails(*n)) {
                        onFailing = true;
                        if (std::find(v.failingRoot.begin(), v.failingRoot.end(), *n) != v.failingRoot.end()) rootCovered = true;
                    }
                }
                if (!onFailing) report(c, sig(ph + "resolve:false-but-no-issue-is-attached-to-a-failing-import:" + v.why), {{"issues", issuesJson(imp)}, {"case", detail}});
                c.outcome(rootCovered ? "issues:name-a-failing-root-import" : "issues:name-only-deeper-failing-imports");
            }
        }
        bool ok = r == 1;
        checkLibrary(g, v, ok, texts, judgeTruth);
        return r;
    }
    // flattenModel, judged against what resolve said. resolved: 1 resolved, 0 unresolved, -1 unknown
    void flatten(const Verdict &v, int resolved, const std::string &phase)
    {
        ModelPtr flat;
        if (!step("flattenModel", 3, [&] { flat = imp->flattenModel(root); })) return;
        c.logger(imp, "importer");
        std::string ph = phase.empty() ? "" : phase + ":";
        if (c.verbose) printf("# [%s %s] %sflattenModel -> %s; issues %s\n", mode.tag().c_str(), situation.c_str(), ph.c_str(), flat ? "model" : "null", issuesJson(imp).dump().c_str());
        c.outcome(ph + "flatten:" + (flat ? "model" : "null") + (resolved == 1 ? ":after-success" : resolved == 0 ? ":unresolved" : ":unknown"));
        if (v.fileCycleOnly) resolved = -1; // excluded by the statement: termination and issue coherence only
        if (resolved == 0) {
            if (flat) report(c, sig(ph + "flatten:returns-a-model-although-unresolved") + ":" + inputClass, detail);
            else if (imp->issueCount() == 0) report(c, sig(ph + "flatten:null-without-any-issue"), detail);
        } else if (resolved == 1 && v.expect == EX_TRUE && !v.crashProne) {
            if (!flat) report(c, sig(ph + "flatten:null-after-successful-resolve"), {{"issues", issuesJson(imp)}, {"case", detail}});
            else if (flat->hasImports()) report(c, sig(ph + "flatten:result-still-has-imports"), detail);
        }
        if (!flat && imp->issueCount() == 0 && resolved != 0) report(c, sig(ph + "flatten:null-without-any-issue"), detail);
    }
};

// ------------------------------------------------------------------------------------------- forked execution of crash-prone cases
struct ChildShared
{
    volatile int progress;
    volatile int done;
};
static const char *STEP_NAME[] = {"setup", "resolveImports", "hasUnresolvedImports", "flattenModel"};
// Runs body(ctx, guarded=true, progress*) in a forked child whose statistics are merged into c.
template<class F> static void runForked(Ctx &c, const json &detail, F body)
{
    static ChildShared *sh = static_cast<ChildShared *>(mmap(nullptr, sizeof(ChildShared), PROT_READ | PROT_WRITE, MAP_SHARED | MAP_ANONYMOUS, -1, 0));
    sh->progress = 0;
    sh->done = 0;
    std::string errPath = scratch() + "/child.err", resPath = scratch() + "/child.res";
    unlink(resPath.c_str());
    fflush(stdout);
    fflush(stderr);
    guard::loadSymbols();
    pid_t p = fork();
    if (p == 0) {
        int fd = open(errPath.c_str(), O_WRONLY | O_CREAT | O_TRUNC, 0644);
        if (fd >= 0) { dup2(fd, 2); close(fd); }
        struct rlimit rl;
        getrlimit(RLIMIT_STACK, &rl);
        rl.rlim_cur = 2u << 20; // makes the overflow quick
        setrlimit(RLIMIT_STACK, &rl);
        alarm(60);
        guard::install();
        Ctx cc;
        cc.family = c.family;
        cc.index = c.index;
        cc.verbose = c.verbose;
        body(cc, true, &sh->progress);
        json st = {{"judged", cc.judged}, {"violations", cc.violations}, {"outcomes", cc.outcomes}, {"counters", cc.counters}};
        FILE *f = fopen(resPath.c_str(), "wb");
        if (f) { fputs(st.dump().c_str(), f); fclose(f); }
        sh->done = 1;
        fflush(stdout);
        _exit(0);
    }
    int status = 0;
    waitpid(p, &status, 0);
    c.count("forked_cases");
    std::string res = readFileTail(resPath);
    json st = json::parse(res, nullptr, false);
    if (!st.is_discarded() && st.is_object()) {
        c.judged += st["judged"].get<uint64_t>();
        c.violations += st["violations"].get<uint64_t>();
        for (auto &kv : st["outcomes"].items()) c.outcomes[kv.key()] += kv.value().get<uint64_t>();
        for (auto &kv : st["counters"].items()) c.counters[kv.key()] += kv.value().get<uint64_t>();
    }
    if (!(WIFEXITED(status) && WEXITSTATUS(status) == 0)) {
        std::string err = readFileTail(errPath);
        int pr = sh->progress;
        std::string stepName = (pr >= 0 && pr < 4) ? STEP_NAME[pr] : "?";
        std::string sg = (WIFSIGNALED(status) && WTERMSIG(status) == SIGALRM) ? std::string("hang") : crashSignature(err, status);
        size_t ug = err.find("UNGUARDED ");
        if (ug != std::string::npos) sg = err.substr(ug + 10, err.find('\n', ug) - ug - 10);
        json d = detail;
        d["step"] = stepName;
        d["stderr_tail"] = safe(err.size() > 2500 ? err.substr(err.size() - 2500) : err, 2600);
        report(c, "step=" + stepName + ":" + sg + ":child-died", d);
        c.outcome("child-died-in:" + stepName);
    }
}

// =========================================================================================== families
static std::map<std::string, Shape> g_shapes;
static const Shape &shapeOf(const std::string &n) { return g_shapes.at(n); }
static void addShape(Shape s) { s.finish(); g_shapes[s.name] = s; }

static json graphJson(const Graph &g)
{
    json a = json::array();
    for (size_t f = 0; f < g.f.size(); ++f) {
        json ents = json::object();
        auto one = [&](int kind, int k, const Ent &e) {
            std::string s;
            if (e.removed) s = "REMOVED";
            else if (e.imp) s = "import " + fileName(e.tf) + "#" + entName(kind, e.tk);
            else if (kind == COMP) { int U = int(g.f[f].u.size()); s = e.local == 0 ? "concrete" : e.local <= U ? "concrete, uses " + entName(UNITS, e.local - 1) : e.local <= 2 * U ? "concrete, encapsulated child uses " + entName(UNITS, e.local - U - 1) : "concrete, uses " + entName(UNITS, e.local - 2 * U - 1) + " only in a cn"; }
            else { s = "concrete"; for (int b = 0; b < 8; ++b) if (e.local & (1 << b)) s += " ->" + entName(UNITS, b); }
            if (kind == COMP && parentOf(g.f[f], k) >= 0) s += " [encapsulated by " + entName(COMP, parentOf(g.f[f], k)) + "]";
            ents[entName(kind, k)] = s;
        };
        for (size_t k = 0; k < g.f[f].c.size(); ++k) one(COMP, int(k), g.f[f].c[k]);
        for (size_t k = 0; k < g.f[f].u.size(); ++k) one(UNITS, int(k), g.f[f].u[k]);
        json fj = {{"file", fileName(int(f))}, {"entities", ents}};
        if (g.f[f].st != FS_OK) fj["fault"] = std::string(FS_NAME[g.f[f].st]) + (g.f[f].st == FS_NOTXML ? std::string(":") + TRUNC_NAME[g.f[f].trunc] : "");
        a.push_back(fj);
    }
    return a;
}
static std::vector<std::optional<std::string>> textsOf(const Graph &g)
{
    std::vector<std::optional<std::string>> t;
    for (size_t f = 0; f < g.f.size(); ++f) t.push_back(delivered(g, int(f)));
    return t;
}

static json layoutJson(const Graph &g)
{
    json j = json::object();
    for (size_t f = 0; f < g.f.size(); ++f) j[fileName(int(f))] = std::string("./") + dirOfFile(g, int(f));
    j["href_style"] = HREF_STYLE[g.hrefStyle];
    return j;
}
static std::string inputClassOf(const Verdict &v)
{
    std::string s = v.crashProne ? "ordinary-units-cycle-reachable" : v.impCycleReachable ? "import-cycle-reachable" : v.fileCycle ? "files-import-from-each-other" : "acyclic-input";
    if (v.belowImport) s += "+components-encapsulated-by-import-components";
    return s;
}

// One fault-free or faulted scenario, one delivery mode: [flatten] resolve [hasUnresolved] flatten
using KeyList = std::vector<std::pair<std::string, int>>; // (path below the delivery directory as the importer spelt it, file)
static int scenario(Ctx &c, const Graph &g, Mode mode, const std::string &situation, bool flattenFirst, bool forceFork = false, const KeyList *keysIn = nullptr, KeyList *keysOut = nullptr)
{
    int result = -9;
    Verdict v = judge(g, !mode.strict);
    auto texts = textsOf(g);
    json detail = {{"graph", graphJson(g)}, {"mode", mode.tag()}, {"reference", v.cls}, {"situation", situation},
                   {"ordinary_units_cycle_reachable", v.crashProne}, {"import_cycle_reachable", v.impCycleReachable}};
    auto body = [&](Ctx &cc, bool guarded, volatile int *progress) {
        Session s(cc, mode, guarded, situation, g);
        s.detail = detail;
        s.progress = progress;
        s.inputClass = inputClassOf(v);
        if (!g.dirOf.empty()) { s.inputClass += "+files-in-several-directories"; s.detail["layout"] = layoutJson(g); }
        if (keysIn) s.explicitKeys = *keysIn;
        if (!mode.strict && situation.find("cellml-1.1") != std::string::npos) s.inputClass += "+1.1-file-read-by-permissive-importer";
        if (mode.disk) writeFiles(texts, g);
        if (!s.parseRoot(render(g, 0))) return;
        s.newImporter();
        if (!mode.disk && !s.fillLibrary(texts)) return;
        if (flattenFirst) s.flatten(v, v.rootHasImports ? 0 : -1, "before-resolve");
        int r = s.resolve(g, v, texts, "");
        result = r;
        if (keysOut) {
            std::string t = lexicallyNormal(s.top) + "/";
            for (size_t i = 0; i < s.imp->libraryCount() && i < 64; ++i) {
                std::string k = s.imp->key(i);
                if (k.rfind(s.top, 0) == 0) keysOut->push_back({k.substr(s.top.size()), s.fileOfKey(k)});
            }
        }
        s.flatten(v, r == 1 ? 1 : (r == 0 || r == 2) ? 0 : -1, "");
    };
    if (forceFork || g_options.count("fork")) {
        if (mode.disk) writeFiles(texts, g); // keep the parent's view of the directory in step with the child's
        runForked(c, detail, body);
    } else body(c, !g_options.count("noguard"), nullptr);
    return result;
}

static const std::vector<Mode> MODES_BOTH = {{true, true}, {false, true}};

static void runGraph(const std::string &shape, uint64_t i, Ctx &c)
{
    Graph g = shapeOf(shape).decode(i);
    bool both = !g_options.count("mode");
    for (auto m : MODES_BOTH) {
        if (!both && g_options["mode"] != m.tag()) continue;
        scenario(c, g, m, "fault-free", (i & 1) != 0);
    }
}

// ------------------------------------------------------------------------------------------- directory layouts
// Every file of the graph in every directory of {./, a/, a/b/, s/} (the root model in ./ or a/), hrefs relative to the importing file in
// three spellings; delivered on disk, then through a library registered under exactly the keys the on-disk run produced.
struct LayoutSpace
{
    int F, rootDirs, styles;
    uint64_t perGraph() const { uint64_t n = uint64_t(rootDirs) * styles; for (int f = 1; f < F; ++f) n *= 4; return n; }
};
static LayoutSpace layoutSpace(const Shape &sh, bool full) { return LayoutSpace {sh.files(), full ? 2 : 1, full ? 3 : 1}; }
static Graph layoutGraph(const Shape &sh, bool full, uint64_t i)
{
    LayoutSpace ls = layoutSpace(sh, full);
    Radix r(i);
    int style = int(r.take(ls.styles));
    std::vector<int> dirs(ls.F, 0);
    dirs[0] = int(r.take(ls.rootDirs));
    for (int f = 1; f < ls.F; ++f) dirs[f] = int(r.take(4));
    Graph g = sh.decode(r.v);
    g.dirOf = dirs;
    g.hrefStyle = style;
    return g;
}
static void runLayout(const std::string &shape, bool full, uint64_t i, Ctx &c)
{
    Graph g = layoutGraph(shapeOf(shape), full, i);
    Verdict v = judge(g, false);
    if (!v.rootHasImports || !v.connected) { c.outcome(!v.rootHasImports ? "layout:skipped:no-imports-in-root" : "layout:skipped:a-file-is-unreachable"); return; }
    // Cyclic graphs end in a stack overflow that re-reads a file at every level (20-50 ms each, tens of thousands of them): the reduced family
    // keeps to the acyclic side, the full family runs them with plain hrefs and the root model in ./ (16 of the 96 layouts per graph); the
    // smallest shape (layouts-g2, 4 entities) runs everything.
    bool cyclic = v.impCycleReachable || v.crashProne;
    size_t entities = 0;
    for (auto &fs : g.f) entities += fs.c.size() + fs.u.size();
    if (cyclic && entities > 4 && (!full || g.hrefStyle != 0 || g.dirOf[0] != 0)) { c.outcome("layout:skipped:cyclic-graph-outside-the-reduced-layout-set"); return; }
    bool flat = true;
    for (int d : g.dirOf) if (d) flat = false;
    std::string situation = std::string("directory-layout:hrefs-") + HREF_STYLE[g.hrefStyle];
    c.outcome(std::string("layout:") + (flat ? "all-in-one-directory" : "several-directories") + ":" + HREF_STYLE[g.hrefStyle]);
    KeyList keys;
    int rd = scenario(c, g, Mode {true, true}, situation, (i & 1) != 0, false, nullptr, &keys);
    // the same through the library: every key the on-disk run produced, plus the plain path of every file it did not load
    std::set<int> have;
    for (auto &kj : keys) have.insert(kj.second);
    for (size_t f = 0; f < g.f.size(); ++f) if (!have.count(int(f))) keys.push_back({relPathOf(g, int(f)), int(f)});
    int rl = scenario(c, g, Mode {false, true}, situation, (i & 1) == 0, false, &keys, nullptr);
    if (rd >= 0 && rl >= 0 && rd <= 2 && rl <= 2 && rd != rl && !v.fileCycleOnly) {
        Session tmp(c, Mode {false, true}, false, situation, g);
        report(c, "layout:library-delivery-under-the-same-keys-differs-from-disk-delivery:" + inputClassOf(v), {{"graph", graphJson(g)}, {"layout", layoutJson(g)}, {"disk", rd}, {"library", rl}, {"reference", v.cls}});
    }
}

// ------------------------------------------------------------------------------------------- faults
struct Fault
{
    std::string name; // class (no indices)
    Graph g;          // the faulted spec
    bool diskOnly = false;
    bool permissiveToo = false;
};
static std::vector<Fault> faultsOf(const Graph &g0)
{
    std::vector<Fault> out;
    int F = int(g0.f.size());
    Verdict v0 = judge(g0, false);
    for (int j = 1; j < F; ++j) {
        std::string pos = v0.needed.count(j) ? "needed-file" : "unneeded-file";
        auto fileFault = [&](FileStatus st, int trunc, const std::string &nm, bool diskOnly, bool perm) {
            Fault f {nm + ":" + pos, g0, diskOnly, perm};
            f.g.f[j].st = st;
            f.g.f[j].trunc = trunc;
            out.push_back(f);
        };
        fileFault(FS_MISSING, -1, "file-missing", false, false);
        for (int t = 0; t < 6; ++t) fileFault(FS_NOTXML, t, std::string("file-truncated-") + TRUNC_NAME[t], true, t == 0 || t == 3);
        fileFault(FS_NOTCELLML, -1, "file-is-other-xml", true, true);
        fileFault(FS_V11, -1, "file-is-cellml-1.1", true, true);
        fileFault(FS_PARSEERR, -1, "file-has-2.0-parse-errors", true, false);
        fileFault(FS_VALERR, -1, "file-has-validation-errors", false, false);
        fileFault(FS_WARN, -1, "file-has-parser-warnings", true, false);
        // entity removed
        auto removal = [&](int kind, int k) {
            Node n {j, kind, k};
            // role of the removed entity in the unfaulted graph
            std::string role = "unreferenced-entity";
            Ref ref(g0, false);
            std::set<Node> vis;
            for (auto r : ref.rootEntities()) if (entOf(g0, r).imp) ref.eval(r, nullptr, &vis);
            if (vis.count(n)) {
                role = kind == COMP ? "referenced-component" : "referenced-units";
                // is it reached only as a child units / used units?
                bool importTarget = false;
                for (auto &m : vis) { const Ent &e = entOf(g0, m); if (e.imp && m.kind == kind && e.tf == j && e.tk == k) importTarget = true; }
                if (!importTarget) role = "units-reached-by-local-reference";
            }
            Fault f {"removed-" + role, g0, false, false};
            entOf(f.g, n).removed = true;
            if (kind == COMP) for (auto &pp : f.g.f[j].parent) if (pp == k) pp = -1; // what it encapsulated moves to the top level
            out.push_back(f);
        };
        for (int k = 0; k < int(g0.f[j].c.size()); ++k) removal(COMP, k);
        for (int k = 0; k < int(g0.f[j].u.size()); ++k) removal(UNITS, k);
    }
    // back-edges: a concrete entity of a library file in the root's closure becomes an import of an entity on a path to it (or of itself)
    {
        Ref ref(g0, false);
        std::set<std::pair<Node, Node>> done;
        std::function<void(Node, std::vector<Node> &)> walk = [&](Node n, std::vector<Node> &path) {
            if (std::find(path.begin(), path.end(), n) != path.end()) return;
            path.push_back(n);
            const Ent &e = entOf(g0, n);
            if (!e.imp && n.f != 0) {
                for (size_t a = 0; a < path.size(); ++a) {
                    Node t = path[a];
                    if (t.kind != n.kind) continue;
                    if (!done.insert({n, t}).second) continue;
                    Fault f {"", g0, false, false};
                    Ent &x = entOf(f.g, n);
                    x.imp = true;
                    x.tf = t.f;
                    x.tk = t.k;
                    x.local = 0;
                    Verdict vf = judge(f.g, false);
                    if (vf.expect != EX_FALSE || !vf.cycleLen) continue; // only true back-edges
                    f.name = "back-edge-cycle-length-" + std::to_string(vf.cycleLen);
                    out.push_back(f);
                }
            }
            std::vector<Node> d;
            std::vector<std::string> miss;
            ref.deps(n, d, miss, nullptr, nullptr);
            for (auto &t : d) walk(t, path);
            path.pop_back();
        };
        for (auto r : ref.rootEntities()) if (entOf(g0, r).imp) { std::vector<Node> path; walk(r, path); }
    }
    return out;
}
static bool inFaultDomain(const Graph &g, const Verdict &v) { return v.expect == EX_TRUE && v.rootHasImports && v.connected && !v.crashProne; }

static void runFaults(const std::string &shape, uint64_t i, Ctx &c)
{
    Graph g = shapeOf(shape).decode(i);
    Verdict v = judge(g, false);
    if (!inFaultDomain(g, v)) { c.outcome("not-in-fault-domain:" + std::string(v.expect != EX_TRUE ? "not-resolvable" : !v.rootHasImports ? "no-imports" : !v.connected ? "a-file-is-unreachable" : "crash-prone")); return; }
    auto fs = faultsOf(g);
    int only = g_options.count("fault") ? atoi(g_options["fault"].c_str()) : -1;
    for (size_t k = 0; k < fs.size(); ++k) {
        if (only >= 0 && int(k) != only) continue;
        const Fault &f = fs[k];
        c.count("fault_scenarios");
        scenario(c, f.g, Mode {true, true}, f.name, (k & 1) != 0);
        if (!f.diskOnly) scenario(c, f.g, Mode {false, true}, f.name, (k & 1) == 0);
        if (f.permissiveToo) scenario(c, f.g, Mode {true, false}, f.name, false);
    }
    // the permissive importer on the unfaulted graph
    scenario(c, g, Mode {true, false}, "fault-free", false);
}

// ------------------------------------------------------------------------------------------- repair sequences
// resolve(fault) -> [flatten] -> repair -> {same importer as it is, same importer after removeAllModels(), new importer} x {same root object, root parsed again}
// -> resolve -> flatten
static void repairSequence(Ctx &c, const Graph &g0, const Verdict &v0, const Fault &f, Mode mode, int variant, bool freshRoot, bool flattenBetween, bool reuseObjects, bool keepAlive = false)
{
    static const char *VAR[] = {"same-importer-not-cleared", "same-importer-after-removeAllModels", "new-importer", "same-importer-after-clearImports-and-removeAllModels"};
    Verdict vf = judge(f.g, !mode.strict);
    std::string situation = f.name + ":repair=" + VAR[variant] + (freshRoot ? "+root-parsed-again" : "+same-root-object") + (reuseObjects ? "+library-objects-reused" : "") + (keepAlive ? "+old-importer-and-models-still-alive" : "");
    auto textsF = textsOf(f.g), texts0 = textsOf(g0);
    json detail = {{"graph", graphJson(g0)}, {"faulted", graphJson(f.g)}, {"mode", mode.tag()}, {"situation", situation},
                   {"ordinary_units_cycle_reachable", vf.crashProne}, {"import_cycle_reachable", vf.impCycleReachable}};
    bool judged = variant != 0 && !reuseObjects;
    auto body = [&](Ctx &cc, bool guarded, volatile int *progress) {
        Session s(cc, mode, guarded, situation, g0);
        s.detail = detail;
        s.progress = progress;
        s.inputClass = inputClassOf(vf);
        if (mode.disk) writeFiles(textsF, f.g);
        if (!s.parseRoot(render(g0, 0))) return;
        s.newImporter();
        if (!mode.disk && !s.fillLibrary(textsF)) return;
        int r1 = s.resolve(f.g, vf, textsF, "faulted", false); // judged by the faults family; here it only sets the scene
        if (flattenBetween) s.flatten(vf, r1 == 1 ? 1 : (r1 == 0 || r1 == 2) ? 0 : -1, "faulted");
        // repair
        if (mode.disk) writeFiles(texts0, g0);
        std::vector<ModelPtr> old = s.libModels;
        // an application may well keep the first importer and the models it loaded (for other work) while it resolves afresh
        std::vector<ModelPtr> stillAlive;
        ImporterPtr firstImporter;
        if (keepAlive) {
            firstImporter = s.imp;
            for (size_t i = 0; i < s.imp->libraryCount() && i < 64; ++i) stillAlive.push_back(s.imp->library(i));
            for (auto &m : old) stillAlive.push_back(m);
        }
        if (variant == 2) s.newImporter();
        if (variant == 3) { s.imp->clearImports(s.root); cc.logger(s.imp, "importer"); }
        if (variant == 1 || variant == 3) {
            s.imp->removeAllModels();
            cc.logger(s.imp, "importer");
            if (s.imp->libraryCount() != 0) report(cc, s.sig("library:not-empty-after-removeAllModels"), detail);
        }
        if (!mode.disk) {
            if (variant == 0) {
                // repair in place: replace or add what differs
                for (size_t j = 1; j < texts0.size(); ++j) {
                    if (textsF[j] == texts0[j]) continue;
                    auto parser = Parser::create(true);
                    auto m = parser->parseModel(*texts0[j]);
                    bool had = s.libModels[j] != nullptr;
                    bool ok = had ? s.imp->replaceModel(m, fileName(int(j))) : s.imp->addModel(m, fileName(int(j)));
                    if (!ok) report(cc, s.sig(std::string("library:") + (had ? "replaceModel-refused-existing-key" : "addModel-refused-new-key")), detail);
                    s.libModels[j] = m;
                }
            } else if (reuseObjects) {
                for (size_t j = 0; j < texts0.size(); ++j) {
                    ModelPtr m = old[j];
                    if (!m || textsF[j] != texts0[j]) { auto parser = Parser::create(true); m = parser->parseModel(*texts0[j]); }
                    s.imp->addModel(m, fileName(int(j)));
                    s.libModels[j] = m;
                }
                old.clear();
            } else {
                old.clear();
                if (!s.fillLibrary(texts0)) return;
            }
        }
        old.clear();
        if (judged) s.inputClass = inputClassOf(v0); // what a fresh resolution sees from here on (an uncleared library still holds the faulted models)
        if (freshRoot && !s.parseRoot(render(g0, 0))) return;
        int r2 = s.resolve(g0, v0, texts0, "repaired", judged);
        stillAlive.clear();
        firstImporter.reset();
        if (!judged) cc.outcome(std::string("not-judged:") + VAR[variant] + (reuseObjects ? "+objects-reused" : "") + ":" + f.name.substr(0, f.name.find(':')) + (r2 == 1 ? ":true" : ":false"));
        if (judged) s.flatten(v0, r2 == 1 ? 1 : (r2 == 0 || r2 == 2) ? 0 : -1, "repaired");
    };
    body(c, !g_options.count("noguard"), nullptr);
}
static void runRepairs(const std::string &shape, uint64_t i, Ctx &c)
{
    Graph g = shapeOf(shape).decode(i);
    Verdict v = judge(g, false);
    if (!inFaultDomain(g, v)) { c.outcome("not-in-fault-domain"); return; }
    auto fs = faultsOf(g);
    int only = g_options.count("fault") ? atoi(g_options["fault"].c_str()) : -1;
    for (size_t k = 0; k < fs.size(); ++k) {
        if (only >= 0 && int(k) != only) continue;
        const Fault &f = fs[k];
        Verdict vf = judge(f.g, false);
        if (vf.expect == EX_TRUE) continue; // the fault is invisible to the root: nothing to repair
        c.count("repaired_faults");
        for (int variant = 0; variant < 4; ++variant) {
            for (int fresh = 0; fresh < 2; ++fresh) {
                for (int keep = 0; keep < (variant == 0 ? 1 : 2); ++keep) {
                    bool fb = ((k + variant + fresh + keep) & 1) != 0;
                    repairSequence(c, g, v, f, Mode {true, true}, variant, fresh, fb, false, keep);
                    c.count("repair_sequences");
                    if (!f.diskOnly) {
                        repairSequence(c, g, v, f, Mode {false, true}, variant, fresh, !fb, false, keep);
                        c.count("repair_sequences");
                        if (variant == 1 && !fresh && !keep) { repairSequence(c, g, v, f, Mode {false, true}, variant, fresh, fb, true); c.count("repair_sequences"); }
                    }
                }
            }
        }
    }
}

// The fault documents must be what their names say (vacuity guard for the fault families).
static void runSelfTest(uint64_t, Ctx &c)
{
    Graph g = shapeOf("h2").decode(0);
    // file 1: c0 uses u0, c1 has a child using u1, u0 -> u1, u1 base
    g.f[1].c[0].local = 1;
    g.f[1].c[1].local = 4;
    g.f[1].u[0].local = 2;
    auto parse = [&](const std::string &t, bool strict, ModelPtr &m) { auto p = Parser::create(strict); m = p->parseModel(t); c.logger(p, "parser"); return p; };
    auto bad = [&](const std::string &what, const ParserPtr &p) { report(c, "HARNESS:selftest:" + what, {{"issues", issuesJson(p)}}); };
    ModelPtr m;
    ++c.judged;
    auto p = parse(render(g, 1), true, m);
    if (p->issueCount() != 0 || !m || m->componentCount() != 2 || m->unitsCount() != 2 || m->component(1)->componentCount() != 1) bad("plain-document-not-clean", p);
    p = parse(render(g, 1, FS_VALERR), true, m);
    auto val = Validator::create();
    val->validateModel(m);
    c.logger(val, "validator");
    if (p->issueCount() != 0 || val->errorCount() == 0) bad("validation-error-document-is-not-parser-clean-and-validator-dirty", p);
    for (int enc = 0; enc < 2; ++enc) {
        Graph g2 = g;
        if (!enc) g2.f[1].c[1].local = 0;
        p = parse(render(g2, 1, FS_WARN), true, m);
        if (p->errorCount() != 0 || p->warningCount() == 0) bad("warning-document-has-no-parser-warning", p);
    }
    p = parse(render(g, 1, FS_PARSEERR), true, m);
    bool xml = false;
    for (size_t i = 0; i < p->errorCount(); ++i) if (p->error(i)->referenceRule() == Issue::ReferenceRule::XML) xml = true;
    if (p->errorCount() == 0 || xml || !m || m->componentCount() != 2) bad("parse-error-document-is-not-(non-XML-errors-only)", p);
    for (int t = 0; t < 6; ++t) {
        p = parse(truncateAt(render(g, 1), t), true, m);
        xml = false;
        for (size_t i = 0; i < p->errorCount(); ++i) if (p->error(i)->referenceRule() == Issue::ReferenceRule::XML) xml = true;
        if (!xml) bad(std::string("truncated-document-is-well-formed:") + TRUNC_NAME[t], p);
        c.outcome(std::string("selftest:truncation-") + TRUNC_NAME[t] + ":length-" + (truncateAt(render(g, 1), t).size() < render(g, 1).size() ? "shorter" : "same"));
    }
    p = parse(NOT_CELLML, true, m);
    xml = false;
    for (size_t i = 0; i < p->errorCount(); ++i) if (p->error(i)->referenceRule() == Issue::ReferenceRule::XML) xml = true;
    if (p->errorCount() == 0 || xml) bad("other-xml-document-is-not-(well-formed-and-refused)", p);
    p = parse(render(g, 1, FS_V11), true, m);
    if (p->errorCount() == 0) bad("1.1-document-accepted-by-strict-parser", p);
    p = parse(render(g, 1, FS_V11), false, m);
    if (p->errorCount() != 0 || !m || m->componentCount() != 2 || m->unitsCount() != 2) bad("1.1-document-refused-by-permissive-parser", p);
    c.outcome("selftest:done");
}

static json showGraph(const std::string &shape, uint64_t i)
{
    Graph g = shapeOf(shape).decode(i);
    Verdict v = judge(g, false);
    json files = json::object();
    for (size_t f = 0; f < g.f.size(); ++f) files[fileName(int(f))] = render(g, int(f));
    json fl = json::array();
    if (inFaultDomain(g, v)) for (auto &f : faultsOf(g)) fl.push_back(f.name);
    return json {{"graph", graphJson(g)}, {"reference", v.cls}, {"expect", v.expect == EX_TRUE ? "true" : v.expect == EX_FALSE ? "false" : "not judged"}, {"needed_files", v.needed}, {"files", files}, {"faults", fl}};
}

int main(int argc, char **argv)
{
    {
        // end of the main thread's stack mapping
        int probe;
        guard::stackTop = uintptr_t(&probe) & ~uintptr_t(4095);
        FILE *mf = fopen("/proc/self/maps", "r");
        char line[512];
        while (mf && fgets(line, sizeof line, mf)) {
            unsigned long a = 0, b = 0;
            if (sscanf(line, "%lx-%lx", &a, &b) == 2 && uintptr_t(&probe) >= a && uintptr_t(&probe) < b) guard::stackTop = b;
        }
        if (mf) fclose(mf);
    }
    {
        // Every library call is made under a SIGSEGV guard (sigsetjmp/siglongjmp on an alternate stack): an unbounded recursion is
        // recorded as a crash of that step and the run goes on. A small stack limit makes such an overflow quick.
        struct rlimit rl;
        getrlimit(RLIMIT_STACK, &rl);
#ifdef VERIF_FLAVOUR_asan
        rl.rlim_cur = 384u << 10;
#else
        rl.rlim_cur = 128u << 10;
#endif
        if (const char *e = getenv("C07_STACK_KB")) rl.rlim_cur = rlim_t(atol(e)) << 10;
        setrlimit(RLIMIT_STACK, &rl);
        if (!getenv("C07_NOGUARD")) guard::install(); // with C07_NOGUARD and --noguard the sanitizer's own report is printed
    }
    auto S = [](const std::string &name, std::vector<int> nc, std::vector<int> nu, int maxImports = -1, bool childOpt = true, bool fixedLocal = false) {
        Shape s;
        s.name = name;
        s.nc = nc;
        s.nu = nu;
        s.maxImports = maxImports;
        s.childOpt = childOpt;
        s.fixedLocal = fixedLocal;
        addShape(s);
    };
    S("g2", {1, 1}, {1, 1});
    S("g3", {1, 1, 1}, {1, 1, 1});
    S("g4", {1, 1, 1, 1}, {1, 1, 1, 1}, 5, false);
    S("h2", {1, 2}, {1, 2});
    S("u3", {0, 0, 0}, {3, 1, 1});
    S("d3", {1, 1, 0}, {0, 3, 1});
    S("e3", {0, 0, 0}, {1, 3, 1});
    S("k3", {2, 2, 2}, {2, 2, 2}, 4, false, true);
    // with every encapsulation forest over the components of every file (imports nested under imports / under concrete components)
    auto N = [](const std::string &name, std::vector<int> nc, std::vector<int> nu) {
        Shape s;
        s.name = name;
        s.nc = nc;
        s.nu = nu;
        s.nest = true;
        addShape(s);
    };
    {
        Shape s; // g3 plus the "only through a cn" way of using units
        s.name = "q3";
        s.nc = {1, 1, 1};
        s.nu = {1, 1, 1};
        s.cnOpt = true;
        addShape(s);
    }
    N("n2", {2, 2}, {0, 0});
    N("r3", {3, 1}, {0, 0});
    N("n3", {2, 2, 1}, {0, 0, 0});
    N("m2", {2, 2}, {0, 1});
    std::vector<Family> fs;
    for (auto &kv : g_shapes) {
        std::string n = kv.first;
        fs.push_back({"graphs-" + n, [n] { return shapeOf(n).total; }, [n](uint64_t i, Ctx &c) { runGraph(n, i, c); }, [n](uint64_t i) { return showGraph(n, i); }});
        fs.push_back({"faults-" + n, [n] { return shapeOf(n).total; }, [n](uint64_t i, Ctx &c) { runFaults(n, i, c); }, [n](uint64_t i) { return showGraph(n, i); }});
        fs.push_back({"repairs-" + n, [n] { return shapeOf(n).total; }, [n](uint64_t i, Ctx &c) { runRepairs(n, i, c); }, [n](uint64_t i) { return showGraph(n, i); }});
    }
    for (auto &kv : g_shapes) {
        std::string n = kv.first;
        for (int full = 0; full < 2; ++full) {
            bool fl = full != 0;
            fs.push_back({std::string(fl ? "layouts-" : "layoutsq-") + n, [n, fl] { return shapeOf(n).total * layoutSpace(shapeOf(n), fl).perGraph(); },
                          [n, fl](uint64_t i, Ctx &c) { runLayout(n, fl, i, c); },
                          [n, fl](uint64_t i) {
                              Graph g = layoutGraph(shapeOf(n), fl, i);
                              json files = json::object();
                              for (size_t f = 0; f < g.f.size(); ++f) files[relPathOf(g, int(f))] = render(g, int(f));
                              return json {{"graph", graphJson(g)}, {"layout", layoutJson(g)}, {"reference", judge(g, false).cls}, {"files", files}};
                          }});
        }
    }
    fs.push_back({"selftest", [] { return uint64_t(1); }, runSelfTest, [](uint64_t) { return json{{"selftest", "fault documents have the properties their names claim"}}; }});
    return harnessMain(argc, argv, fs);
}
