#!/usr/bin/env python3
"""C20 — external variables turn unknowns into inputs without disturbing the rest.
Family 'ext': every dependency graph of lib/depgraph.py (n <= --n, read-edge bound --edges) x placement x every marking of
<= 2 variables as external (home variable of each class, a non-primary twin, both twins, the VOI, a foreign variable) x every
declared dependency of <= 1 other variable (legal ones, itself, a foreign variable), plus the under-constrained variant whose
dropped equation is exactly the marked variable. Analysis result is compared with the unmarked analysis and with the
construction; generated C and Python run with a recording callback.
  --prop=C20 (default) | C17 (structure oracles only, used by checks/c17.py)"""
import os, sys, json, shutil, tempfile, itertools, math
V = os.path.dirname(os.path.dirname(os.path.abspath(__file__)))
sys.path.insert(0, os.path.join(V, 'lib'))
sys.path.insert(0, os.path.join(V, 'harness'))
import depgraph as D
import codeexec as X
from pyharness import Family, Lcx, main

EXTVAL = {0: 11.25, 1: 12.5, 2: 13.75, 3: 15.0}


def depends_on(kinds, reads, i, marked, seen=None):
    """does variable i (transitively) read a marked variable?"""
    seen = seen or set()
    if i in seen or i == 't':
        return False
    seen.add(i)
    for j in reads[i]:
        if j in marked or depends_on(kinds, reads, j, marked, seen):
            return True
    return False


def value_depends_on(kinds, reads, j, i, seen=None):
    """does the VALUE of j depend on variable i?  (the value of a state is given; only its rate reads things)"""
    seen = seen or set()
    if j == 't' or j in seen or kinds[j] == 'S':
        return False
    seen.add(j)
    return any(k == i or value_depends_on(kinds, reads, k, i, seen) for k in reads[j] if k != 't')


class Runner:
    def __init__(self, opts):
        self.n = int(opts.get('n', '2'))
        self.edges = int(opts['edges']) if 'edges' in opts else None
        self.prop = opts.get('prop', 'C20')
        self.lean = opts.get('lean') == '1' or opts.get('set') == 'q'
        self.flavour = opts.get('flavour', 'plain')
        if 'set' in opts:   # called from checks/c17.py
            self.n, self.edges = (2, None) if opts['set'] == 'q' else (3, 1)   # C17 thorough: same bound as C20 thorough
        self.lcx = None
        self.tmp = None
        self._cases = None

    def job(self, j):
        if self.lcx is None:
            self.lcx = Lcx(self.flavour)
        return self.lcx.job(j)

    def work(self):
        if self.tmp is None:
            base = os.path.join(V, 'build', 'scratch')
            os.makedirs(base, exist_ok=True)
            self.tmp = tempfile.mkdtemp(prefix='c20.', dir=base)
        return self.tmp

    def cleanup(self):
        if self.lcx:
            self.lcx.close()
        if self.tmp:
            shutil.rmtree(self.tmp, ignore_errors=True)

    def cases(self):
        if self._cases is not None:
            return self._cases
        cs = []
        for n in range(1, max(self.n, 3) + 1):
            only_two_deps = n > self.n     # beyond the tier's n only the two-dependency markings are generated (edge bound 1)
            for kinds, reads in D.graphs(n, (self.edges if not only_two_deps else 1) if n == 3 else None):
                if 'C' in kinds:
                    continue  # coupled systems are C05's subject; the external-variable expectations here are per equation
                if self.lean and ('G' in kinds or any(i in reads[i] for i in range(n))):
                    continue  # quick: guessed unknowns and self-reading states only in the dedicated sub-family / thorough
                for place in D.placements(n):
                    L = D.Layout(kinds, reads, place)
                    twins = [(j, c) for (j, c) in L.needed_twins() if j != 't']
                    marks = []
                    for i in range(n):
                        marks.append((('home', i),))
                    for a, b in itertools.combinations(range(n), 2):
                        marks.append((('home', a), ('home', b)))
                    for (j, c) in twins:
                        marks.append((('twin', j, c),))
                        marks.append((('home', j), ('twin', j, c)))
                    if 'S' in kinds:
                        marks.append((('voi',),))
                    marks.append((('foreign',),))
                    if only_two_deps:
                        marks = [mm for mm in marks if len(mm) == 1 and mm[0][0] == 'home']
                    for m in marks:
                        deps = [None]
                        if len(m) == 1 and m[0][0] == 'home':
                            i = m[0][1]
                            for j in range(n):
                                if j != i and not depends_on(kinds, reads, j, {i}) and kinds[j] != 'S':
                                    deps.append(('var', j))
                            deps += [('self',), ('foreign',)]
                        for d in deps:
                            if not only_two_deps:
                                cs.append((kinds, reads, place, m, d, None, 0))
                                if d and d[0] == 'var':
                                    # the same dependency declared through each NON-home member of its class, with the components
                                    # listed in either order (the member may sit in an earlier component than the defining equation)
                                    for (j, c) in twins:
                                        if j == d[1]:
                                            for pc in (False, True):
                                                cs.append((kinds, reads, place, m, ('vartwin', j, c), None, {'perm_comp': pc}))
                        # two declared dependencies living in different components, also with names shared across components
                        if len(m) == 1 and m[0][0] == 'home' and n == 3:
                            i = m[0][1]
                            oth = [j for j in range(n) if j != i]
                            if all(not depends_on(kinds, reads, j, {i}) and kinds[j] != 'S' for j in oth) and place[oth[0]] != place[oth[1]]:
                                for rn in (0, 4):
                                    cs.append((kinds, reads, place, m, ('vars', oth[0], oth[1]), None, rn))
                    # under-constrained only by the marked variable
                    for i in range(n):
                        if kinds[i] in 'EN' and not only_two_deps:
                            cs.append((kinds, reads, place, (('home', i),), None, i, 0))
        self._cases = cs
        return cs

    def sdep_cases(self):
        """An external variable whose declared dependency is a state or depends on one: its callback value moves with the states, so
        whatever reads it must be computed again by computeVariables(). n <= 3, <= 2 read edges for n = 3, single home marking."""
        if getattr(self, '_sdep', None) is not None:
            return self._sdep
        cs = []
        for n in (2, 3):
            # n = 3: at most 2 read edges between variables; reads of the variable of integration do not count (3 edges in all)
            for kinds, reads in D.graphs(n, 3 if n == 3 else None):
                if 'C' in kinds or 'G' in kinds or 'S' not in kinds:
                    continue
                nvar = sum(len([x for x in r_ if x != 't']) for r_ in reads)
                if n == 3 and nvar > 2:
                    continue
                extra = n == 3 and nvar + sum(1 for r_ in reads if 't' in r_) > 2   # only inside the bound because t does not count
                for place in D.placements(n):
                    if self.lean and len(set(place)) > 1 and (extra or place != tuple(i % 2 for i in range(n))):
                        continue  # quick: one component, or the alternating placement
                    for i in range(n):
                        if kinds[i] == 'S':
                            continue
                        unread = not any(i in reads[k] for k in range(n) if k != i)
                        for j in range(n):
                            if j != i and not value_depends_on(kinds, reads, j, i) and D.state_dependent(kinds, reads, j):
                                if extra and self.lean:
                                    cs.append((kinds, reads, place, (('home', i),), ('var', j), None, 0))
                                    continue
                                if unread:
                                    # nothing reads the marked variable, so nothing can go stale: only the order of callback and
                                    # dependency is at stake - one padded variant
                                    cs.append((kinds, reads, place, (('home', i),), ('var', j), None, {'pad': 1}))
                                    continue
                                cs.append((kinds, reads, place, (('home', i),), ('var', j), None, 0))
                                # the same with unrelated equations next to it (a constant, a computed constant, an algebraic variable
                                # that only computeVariables has to compute), listed last and listed first
                                cs.append((kinds, reads, place, (('home', i),), ('var', j), None, {'pad': 1}))
                                cs.append((kinds, reads, place, (('home', i),), ('var', j), None, {'pad': 2}))
                                for (jj, c) in [(jj, c) for (jj, c) in D.Layout(kinds, reads, place).needed_twins() if jj == j]:
                                    for pc in (False, True):
                                        cs.append((kinds, reads, place, (('home', i),), ('vartwin', j, c), None, {'perm_comp': pc}))
        self._sdep = cs
        return cs


def families(opts):
    r = Runner(opts)

    def describe(case):
        kinds, reads, place, m, d, drop, rn = case
        return {'layout': rn, 'kinds': ''.join(kinds), 'reads': [sorted(map(str, x)) for x in reads], 'place': list(place), 'marked': [list(x) for x in m], 'dependency': list(d) if d else None, 'dropped_equation_of': drop}

    def run_ext(ci, ctx):
        run_case(r.cases()[ci], ci, ctx)

    def run_sdep(ci, ctx):
        run_case(r.sdep_cases()[ci], ci, ctx)

    def run_case(case, ci, ctx):
        kinds, reads, place, m, d, drop, rn = case
        n = len(kinds)
        desc = describe(case)
        lk = rn if isinstance(rn, dict) else {'rename': rn}
        L = D.Layout(kinds, reads, place, drop_eq=drop, **lk)
        doc = L.render()

        def rep(sig, det=None):
            dd = dict(det or {})
            dd['case'] = desc
            ctx.violation(sig if sig.startswith('C15:') else 'ext:' + sig, dd)
        ext = []
        marked_classes = set()
        special = None
        for x in m:
            if x[0] == 'home':
                e = L.ref(x[1])
                marked_classes.add(x[1])
            elif x[0] == 'twin':
                e = L.ref(x[1], x[2])
                marked_classes.add(x[1])
                if len(m) == 1:
                    special = 'twin'
            elif x[0] == 'voi':
                e = L.ref('t')
                special = 'voi'
            else:
                e = {'foreign': True, 'var': 'stranger'}
                special = 'foreign'
            e = dict(e)
            e['deps'] = []
            if d and x == m[0]:
                if d[0] == 'vartwin':
                    e['deps'].append(L.ref(d[1], d[2]))
                elif d[0] == 'var':
                    e['deps'].append(L.ref(d[1]))
                elif d[0] == 'vars':
                    e['deps'] += [L.ref(d[1]), L.ref(d[2])]
                elif d[0] == 'self':
                    e['deps'].append(L.ref(x[1]))
                else:
                    e['deps'].append({'foreign': True})
            ext.append(e)
        only_state_marked = 'S' in kinds and all(kinds[i] != 'S' or i in marked_classes for i in range(n))
        base = r.job({'id': ci, 'doc': doc, 'code': False}) if drop is None else None
        res = r.job({'id': ci, 'doc': doc, 'ext': ext, 'code': True, 'ast': r.prop == 'C17'})
        ctx.judged += 1
        for rr in (base, res):
            if rr is None:
                continue
            if 'crash' in rr:
                rep('pipeline-crash:' + rr['crash'], {'stderr_tail': rr.get('stderr', '')})
                return
            for x in rr.get('c15', []):
                rep('C15:logger-incoherent:' + x['service'], x)
        if res.get('parse_issues') or res.get('validate_errors'):
            ctx.outcome('document-rejected-by-parser-or-validator(not judged here)')
            return
        er = res.get('ext_result', [])
        for k, x in enumerate(m):
            if k < len(er) and x[0] != 'foreign' and not er[k]['found']:
                rep('harness:marked-variable-not-found')
                return
        if d and er:
            added = er[0]['deps_added'][0] if er[0]['deps_added'] else None
            if d[0] in ('self', 'foreign') and added:
                rep('addDependency-accepts-%s' % d[0])
            if d[0] in ('var', 'vars', 'vartwin') and not all(er[0]['deps_added']):
                rep('addDependency-refuses-legal-dependency')
        if only_state_marked and r.prop != 'C17':
            ctx.outcome('only-state-marked(not judged: the VOI is left dangling)')
            return
        kind_tag = special or ('+'.join(kinds[i] for i in sorted(marked_classes)) + ('+dropped' if drop is not None else ''))
        ctx.outcome('marked:%s:%s' % (kind_tag, res.get('type')))
        if not res.get('valid'):
            rep('analysis-broken-by-marking:%s:%s' % (kind_tag, res.get('type')), {'issues': [i for i in res.get('analyse_issues', []) if i['level'] == 'ERROR'][:3]})
            return
        msgs = [i for i in res.get('analyse_issues', []) if i['level'] == 'MESSAGE']
        primary = {}
        for arr in ('states', 'variables'):
            for e in res.get(arr, []):
                primary[L.class_of(e['comp'], e['var'])] = (e['comp'], e['var'])
        if special == 'twin':
            x = m[0]
            rf = L.ref(x[1], x[2])
            if primary.get(x[1]) == (rf['comp'], rf['var']):
                special = None  # the marked member IS the class's primary variable in the analyser's view: nothing to report
                ctx.outcome('marked-twin-is-the-primary')
        if special and not msgs:
            rep('marking-%s-not-reported-with-a-message' % special)
        got = {}
        eqtype = {}
        for arr in ('states', 'variables'):
            for e in res.get(arr, []):
                cls = L.class_of(e['comp'], e['var'])
                got[cls] = e['type']
                eqtype[cls] = sorted(res['equations'][x]['type'] for x in e['eqs'] if x >= 0)
        if res.get('voi'):
            got[L.class_of(res['voi']['comp'], res['voi']['var'])] = res['voi']['type']
        want_ext = set(marked_classes)
        for i in range(n):
            is_ext = got.get(i) == 'external'
            if (i in want_ext) != is_ext:
                rep('wrong-set-of-external-variables:%s' % kind_tag, {'var': i, 'type': got.get(i)})
            if i in want_ext and is_ext and eqtype.get(i) != ['external']:
                rep('external-variable-without-placeholder-equation', {'var': i, 'eqs': eqtype.get(i)})
        if base is not None and base.get('valid'):
            b = {}
            beq = {}
            for arr in ('states', 'variables'):
                for e in base.get(arr, []):
                    cls = L.class_of(e['comp'], e['var'])
                    b[cls] = e['type']
                    beq[cls] = sorted(base['equations'][x]['type'] for x in e['eqs'] if x >= 0)
            for i in range(n):
                if i in want_ext or depends_on(kinds, reads, i, want_ext):
                    continue
                if got.get(i) != b.get(i) or eqtype.get(i) != beq.get(i):
                    rep('independent-variable-disturbed:%s' % kind_tag, {'var': i, 'unmarked': [b.get(i), beq.get(i)], 'marked': [got.get(i), eqtype.get(i)]})
        if r.prop == 'C17':
            import c03
            run03 = c03.Runner({'prop': 'C17'})
            run03.tmp = r.work()
            crun = prun = None
            try:
                so, cdir = X.compile_c(res['c_h'], res['c_c'], r.work(), 'e', strict=True)
                crun = X.CRun(so, res['c_h'])
            except X.CompileError as ce:
                rep('structure:c-does-not-compile-cleanly', {'diagnostics': ce.diag[:1200]})
            try:
                prun = X.PyRun(res['py'])
            except Exception as ex:
                rep('structure:python-does-not-load:%s' % type(ex).__name__, {'error': str(ex)[:300]})
            for kk, sig, det in run03.structure(res, crun, prun):
                rep(sig, det)
            return
        # ---- run the generated code with a recording callback
        ref = D.values(kinds, reads, ext={i: EXTVAL[i] for i in want_ext})
        idx = {}
        for arr in ('states', 'variables'):
            for e in res.get(arr, []):
                idx[L.class_of(e['comp'], e['var'])] = (arr, e['index'])
        ext_index = {idx[i][1]: i for i in want_ext if i in idx}
        dep_classes = [d[1]] if d and d[0] in ('var', 'vartwin') else [d[1], d[2]] if d and d[0] == 'vars' else []
        # second evaluation point (what an integrator does between outputs): the states move, voi stays, ONLY computeVariables
        # runs. An external variable with a declared dependency that depends on a state answers differently there (its value is
        # a function of what it depends on); every other value must match the equations at the new states.
        cur = {'ref': ref, 'ext': dict(EXTVAL)}
        second = ref2 = None
        if 'S' in kinds and 'G' not in kinds and not any(kinds[i] == 'S' for i in want_ext) and all(i in idx for i in range(n) if kinds[i] == 'S'):
            ext2 = dict(EXTVAL)
            first_cls = m[0][1] if m and m[0][0] not in ('foreign', 'voi') and isinstance(m[0][1], int) else None
            if first_cls in want_ext and any(D.state_dependent(kinds, reads, dc) for dc in dep_classes):
                ext2[first_cls] = EXTVAL[first_cls] + 0.125
            ref2 = D.values(kinds, reads, ext={i: ext2[i] for i in want_ext}, init=D.INIT2)
            second = {'states': {idx[i][1]: D.INIT2[i] for i in range(n) if kinds[i] == 'S'}, 'before': lambda: cur.update(ref=ref2, ext=ext2)}

        def nla(obj, u, nn, arrays):
            if 'G' in kinds:
                # reading-agnostic: really solve the (affine) system the generated objective function defines
                f0 = obj([0.0] * nn)
                J = []
                for k in range(nn):
                    e = [0.0] * nn
                    e[k] = 1.0
                    fk = obj(e)
                    J.append([fk[r_] - f0[r_] for r_ in range(nn)])
                A = [[J[c_][r_] for c_ in range(nn)] + [-f0[r_]] for r_ in range(nn)]   # A x = -f0
                try:
                    for col in range(nn):
                        piv = max(range(col, nn), key=lambda r_: abs(A[r_][col]))
                        if abs(A[piv][col]) < 1e-12:
                            raise ZeroDivisionError
                        A[col], A[piv] = A[piv], A[col]
                        for r_ in range(nn):
                            if r_ != col:
                                m_ = A[r_][col] / A[col][col]
                                A[r_] = [a - m_ * b for a, b in zip(A[r_], A[col])]
                    return [A[r_][nn] / A[r_][r_] for r_ in range(nn)]
                except ZeroDivisionError:
                    rep('nla-system-of-generated-code-is-singular', {'n': nn})
                    return list(u)
            sent = [98765.4321 + 7 * k for k in range(nn)]
            obj(sent)
            vs = list(arrays['variables'])
            want = []
            for sv in sent:
                hit = [k for k, x in enumerate(vs) if x == sv]
                cls = next((c for c, (a, ix) in idx.items() if a == 'variables' and hit and ix == hit[0]), None)
                want.append(cur['ref'][cls] if cls is not None and not isinstance(cur['ref'].get(cls), tuple) else float('nan'))
            f = obj(want)
            for fi in f:
                if not abs(fi) <= 1e-9 and 'G' not in kinds:
                    rep('values:nla-objective-nonzero-at-solution', {'f': repr(fi)})
            return want
        for prof in ('C', 'Python'):
            calls = []

            def cb(voi, arrays, index, calls=calls):
                snap = {}
                for dc in dep_classes:
                    if dc in idx:
                        a, ix = idx[dc]
                        snap[dc] = arrays[a][ix]
                calls.append((index, snap, cur['ref']))
                cls = ext_index.get(index)
                return cur['ext'][cls] if cls is not None else -777.0
            try:
                if prof == 'C':
                    so, cdir = X.compile_c(res['c_h'], res['c_c'], r.work(), 'e', strict=False)
                    cur.update(ref=ref, ext=dict(EXTVAL))
                    out = X.CRun(so, res['c_h']).run(voi=D.VOI, nla=nla, ext=cb, second=second)
                    shutil.rmtree(cdir, ignore_errors=True)
                else:
                    cur.update(ref=ref, ext=dict(EXTVAL))
                    out = X.PyRun(res['py']).run(voi=D.VOI, nla=nla, ext=cb, second=second)
            except X.CompileError as ce:
                rep('values:c-does-not-compile', {'diagnostics': ce.diag[:800]})
                continue
            except Exception as ex:
                rep('values:%s-run-raised:%s' % (prof, type(ex).__name__), {'error': str(ex)[:300]})
                continue
            called = {c[0] for c in calls}
            for c in called - set(ext_index):
                rep('callback-invoked-with-index-of-non-external-variable:%s' % prof, {'index': c})
            for ix, cls in ext_index.items():
                if ix not in called:
                    rep('external-value-not-obtained-through-callback:%s' % prof, {'var': cls})
                if not X.close(out['variables'][ix], EXTVAL[cls]):
                    rep('external-slot-does-not-hold-callback-value:%s' % prof, {'var': cls, 'got': repr(out['variables'][ix])})
            if dep_classes and ext_index:
                (eix, ecls), = list(ext_index.items())[:1]
                # the last invocation at each evaluation point, judged against the reference of that point
                lasts = [[c for c in calls if c[0] == eix and c[2] is rf][-1:] for rf in (ref, ref2) if rf is not None]
                for last in lasts:
                    for dc in dep_classes:
                        if not last:
                            continue
                        rf = last[-1][2]
                        snap = last[-1][1].get(dc)
                        want = rf[dc][0] if isinstance(rf[dc], tuple) else rf[dc]
                        if snap is None or not X.close(snap, want):
                            rep('callback-invoked-before-declared-dependency-is-computed:%s:%s-depends-on-%s%s' % (prof, kinds[ecls], kinds[dc], ':two-dependencies' if len(dep_classes) > 1 else ''),
                                {'dependency': dc, 'dependency_slot': repr(snap), 'want': repr(want)})
            if 'G' in kinds:
                # reading-agnostic oracle: whatever the analyser made of the guessed unknown, a model it calls valid must satisfy
                # every one of its equations with the values the generated code produces
                val = {}
                for i in range(n):
                    if i in idx:
                        a, ix = idx[i]
                        val[i] = out[a][ix]
                val['t'] = D.VOI
                for i in range(n):
                    if kinds[i] == 'K' or i == drop or i in want_ext or i not in val or any(j not in val for j in reads[i]):
                        continue
                    rsum = sum(val[j] for j in reads[i])
                    if kinds[i] == 'E':
                        res_ = val[i] - (D.CONST[i] + rsum)
                    elif kinds[i] == 'S':
                        if idx[i][0] != 'states':
                            continue
                        res_ = out['rates'][idx[i][1]] - (D.CONST[i] + rsum)
                    else:
                        res_ = rsum + D.CONST[i] - val[i]
                    if not abs(res_) <= 1e-9 * max(1.0, abs(val[i])):
                        rep('equation-not-satisfied-by-generated-values:%s:equation-of-%s' % (prof, kinds[i]), {'var': i, 'residual': repr(res_), 'values': {str(k): repr(v) for k, v in val.items()}})
                continue
            for i in range(n):
                if i in want_ext or i not in idx:
                    continue
                a, ix = idx[i]
                if kinds[i] == 'S':
                    if not X.close(out['states'][ix], ref[i][0]) or not X.close(out['rates'][ix], ref[i][1]):
                        rep('values:%s:state-or-rate-wrong' % prof, {'var': i, 'got': [repr(out['states'][ix]), repr(out['rates'][ix])], 'want': [repr(x) for x in ref[i]]})
                elif not X.close(out[a][ix], ref[i]):
                    rep('values:%s:value-wrong:%s' % (prof, kinds[i]), {'var': i, 'got': repr(out[a][ix]), 'want': repr(ref[i])})
                elif ref2 is not None and 'second' in out and not X.close(out['second'][a][ix], ref2[i]):
                    rep('values:%s:stale-after-the-states-moved:%s' % (prof, kinds[i]),
                        {'var': i, 'got': repr(out['second'][a][ix]), 'want': repr(ref2[i]), 'at-first-point': repr(out[a][ix]), 'external-answers-differently': cur['ext'] != EXTVAL})

    def show(ci):
        case = r.cases()[ci]
        dsc = describe(case)
        dsc['document'] = D.Layout(case[0], case[1], case[2], drop_eq=case[5], **(case[6] if isinstance(case[6], dict) else {'rename': case[6]})).render()
        return dsc

    import atexit
    atexit.register(r.cleanup)
    def show_sdep(ci):
        case = r.sdep_cases()[ci]
        dsc = describe(case)
        dsc['document'] = D.Layout(case[0], case[1], case[2], **(case[6] if isinstance(case[6], dict) else {'rename': case[6]})).render()
        return dsc
    return [Family('ext', lambda: len(r.cases()), run_ext, show), Family('sdep', lambda: len(r.sdep_cases()), run_sdep, show_sdep)]


if __name__ == '__main__':
    sys.exit(main(families))
