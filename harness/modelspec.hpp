// Shared model-spec enumerator (DESIGN 2.5, C++ edition).
//
// An abstract model SPEC (plain structs) is decoded from an integer index, family by family, each family exhaustive
// in its own dimensions over a fixed minimal context.  Every spec has three independent renderers:
//   build(spec)            -> the model built through the libcellml API
//   xml20(spec, cnDecl)    -> CellML 2.0 text, string concatenation written here (never touches the Printer)
//   xml1x(spec, legacy)    -> the same spec as a CellML 1.0 / 1.1 document under a vector of legacy spelling choices
// Specs are valid by construction (legal names, resolvable references, interfaces computed from the tree, unique ids)
// unless spec.valid == false (statement-domain members the validator is expected to refuse, e.g. a reset without order).
//
// Families (names carry the tier so that a replay needs no environment):  h (hierarchy+connections), v (variable
// attributes), u (units), r (resets), i (imports), m (math).  See families(tier).
#pragma once
#include "common.hpp"

namespace ms {
using namespace vf;

// ------------------------------------------------------------------ the spec
struct Import
{
    bool on = false;
    std::string href, ref, iid; // url, units_ref/component_ref, id of the <import> element
    int src = -1;               // entities with the same src >= 0 share ONE ImportSource object / one <import> element
};
struct Unit
{
    std::string ref, prefix;
    double exp = 1.0, mult = 1.0;
    std::string id;
};
struct UnitsDef
{
    std::string name, id;
    Import imp;
    std::vector<Unit> kids;
};
struct Var
{
    std::string name, id, units = "second", init, iface;
};
struct Eq
{ // lhs = val [units]; an empty lhs renders a bare <cn> (reset test/reset values)
    std::string lhs, val, units;
};
struct MathBlock
{
    std::vector<Eq> eqs;
};
struct ResetDef
{
    int var = 0, test = 0;
    bool hasOrder = true;
    int order = 1;
    std::string id, tid, rid;
    bool hasTest = true, hasValue = true; // math present in test_value / reset_value
    MathBlock testMath, valueMath;
};
struct Comp
{
    std::string name, id, eid;
    int parent = -1;
    Import imp;
    std::vector<Var> vars;
    std::vector<ResetDef> resets;
    std::vector<MathBlock> math;
};
struct Conn
{ // listing order and orientation are part of the spec (the printer's grouping depends on encounter order)
    int c1, v1, c2, v2;
    std::string mid;
};
struct Spec
{
    std::string family;
    std::string name = "m", id, eid;
    std::vector<UnitsDef> units;
    std::vector<Comp> comps; // listing order = index order; children of one parent are listed in index order
    std::vector<Conn> conns;
    std::map<std::pair<int, int>, std::string> cids; // (min,max) component pair -> connection id
    bool valid = true;
    std::string note;
};

inline bool hasHierarchy(const Spec &s)
{
    for (auto &c : s.comps) if (c.parent >= 0) return true;
    return false;
}
inline std::vector<int> childrenOf(const Spec &s, int p)
{
    std::vector<int> r;
    for (size_t i = 0; i < s.comps.size(); ++i) if (s.comps[i].parent == p) r.push_back(int(i));
    return r;
}
inline bool hasMath(const Spec &s)
{
    for (auto &c : s.comps) {
        if (!c.math.empty()) return true;
        for (auto &r : c.resets) if (r.hasTest || r.hasValue) return true;
    }
    return false;
}
inline bool hasImports(const Spec &s)
{
    for (auto &c : s.comps) if (c.imp.on) return true;
    for (auto &u : s.units) if (u.imp.on) return true;
    return false;
}
inline std::string cidOf(const Spec &s, int a, int b)
{
    auto it = s.cids.find({std::min(a, b), std::max(a, b)});
    return it == s.cids.end() ? "" : it->second;
}

// interfaces required by the connections, computed from the tree (sibling/parent -> public, child -> private)
inline void computeInterfaces(Spec &s)
{
    std::map<std::pair<int, int>, int> need; // (comp,var) -> bit0 public, bit1 private
    auto mark = [&](int c, int v, int other) {
        int &n = need[{c, v}];
        if (s.comps[other].parent == c) n |= 2; else n |= 1;
    };
    for (auto &k : s.conns) { mark(k.c1, k.v1, k.c2); mark(k.c2, k.v2, k.c1); }
    for (auto &e : need) {
        static const char *names[] = {"", "public", "private", "public_and_private"};
        s.comps[e.first.first].vars[e.first.second].iface = names[e.second];
    }
}

inline json toJson(const Spec &s)
{
    json j = {{"family", s.family}, {"model", s.name}, {"id", s.id}, {"eid", s.eid}, {"valid", s.valid}};
    if (!s.note.empty()) j["note"] = s.note;
    auto imp = [](const Import &i) { return json{{"href", i.href}, {"ref", i.ref}, {"iid", i.iid}, {"src", i.src}}; };
    for (auto &u : s.units) {
        json ju = {{"name", u.name}, {"id", u.id}};
        if (u.imp.on) ju["import"] = imp(u.imp);
        for (auto &k : u.kids) ju["unit"].push_back({{"ref", k.ref}, {"prefix", k.prefix}, {"exp", k.exp}, {"mult", k.mult}, {"id", k.id}});
        j["units"].push_back(ju);
    }
    auto mb = [](const MathBlock &b) { json a = json::array(); for (auto &e : b.eqs) a.push_back(e.lhs + "=" + e.val + "[" + e.units + "]"); return a; };
    for (auto &c : s.comps) {
        json jc = {{"name", c.name}, {"id", c.id}, {"eid", c.eid}, {"parent", c.parent}};
        if (c.imp.on) jc["import"] = imp(c.imp);
        for (auto &v : c.vars) jc["vars"].push_back({{"name", v.name}, {"id", v.id}, {"units", v.units}, {"init", v.init}, {"if", v.iface}});
        for (auto &r : c.resets) jc["resets"].push_back({{"var", r.var}, {"test", r.test}, {"order", r.hasOrder ? json(r.order) : json()}, {"id", r.id}, {"tid", r.tid}, {"rid", r.rid}, {"hasTest", r.hasTest}, {"hasValue", r.hasValue}});
        for (auto &m : c.math) jc["math"].push_back(mb(m));
        j["components"].push_back(jc);
    }
    for (auto &k : s.conns) j["connections"].push_back({{"c1", k.c1}, {"v1", k.v1}, {"c2", k.c2}, {"v2", k.v2}, {"mid", k.mid}, {"cid", cidOf(s, k.c1, k.c2)}});
    return j;
}

// ------------------------------------------------------------------ text helpers (own escaping; independent of the printer)
inline std::string esc(const std::string &s)
{
    std::string r;
    for (char c : s) {
        switch (c) {
        case '&': r += "&amp;"; break;
        case '<': r += "&lt;"; break;
        case '>': r += "&gt;"; break;
        case '"': r += "&quot;"; break;
        case '\t': r += "&#9;"; break;
        case '\n': r += "&#10;"; break;
        case '\r': r += "&#13;"; break;
        default: r += c;
        }
    }
    return r;
}
inline std::string att(const char *name, const std::string &v) { return std::string(" ") + name + "=\"" + esc(v) + "\""; }
inline std::string attIf(const char *name, const std::string &v) { return v.empty() ? "" : att(name, v); }
inline std::string num(double d)
{ // shortest of %.15g is enough: all menu values are exactly representable in <= 15 digits
    char b[64];
    snprintf(b, sizeof b, "%.15g", d);
    return b;
}

static const char *NS20 = "http://www.cellml.org/cellml/2.0#";
static const char *NS10 = "http://www.cellml.org/cellml/1.0#";
static const char *NS11 = "http://www.cellml.org/cellml/1.1#";
static const char *NSM = "http://www.w3.org/1998/Math/MathML";
static const char *NSCMETA = "http://www.cellml.org/metadata/1.0#";
static const char *NSXLINK = "http://www.w3.org/1999/xlink";
static const char *NSRDF = "http://www.w3.org/1999/02/22-rdf-syntax-ns#";

// cnDecl: where the prefix used by cellml:units is declared: 0 on <math>, 1 on each <cn>, 2 on an ancestor (caller's job)
inline std::string mathXml(const MathBlock &b, const char *cellmlNs, int cnDecl, const std::function<std::string(const std::string &)> &spell = nullptr)
{
    std::string decl = std::string(" xmlns:cellml=\"") + cellmlNs + "\"";
    std::string s = std::string("<math xmlns=\"") + NSM + "\"" + (cnDecl == 0 ? decl : "") + ">";
    for (auto &e : b.eqs) {
        std::string cn = "<cn" + (cnDecl == 1 ? decl : std::string()) + att("cellml:units", spell ? spell(e.units) : e.units) + ">" + e.val + "</cn>";
        if (e.lhs.empty()) s += cn;
        else s += "<apply><eq/><ci>" + e.lhs + "</ci>" + cn + "</apply>";
    }
    return s + "</math>";
}
inline bool mathUsesCn(const Spec &s)
{
    for (auto &c : s.comps) {
        for (auto &m : c.math) if (!m.eqs.empty()) return true;
        for (auto &r : c.resets) if ((r.hasTest && !r.testMath.eqs.empty()) || (r.hasValue && !r.valueMath.eqs.empty())) return true;
    }
    return false;
}

// ------------------------------------------------------------------ renderer 1: through the API
inline ModelPtr build(const Spec &s)
{
    auto m = Model::create();
    m->setName(s.name);
    if (!s.id.empty()) m->setId(s.id);
    if (!s.eid.empty()) m->setEncapsulationId(s.eid);
    std::map<int, ImportSourcePtr> shared;
    auto source = [&](const Import &i) {
        if (i.src >= 0 && shared.count(i.src)) return shared[i.src];
        auto is = ImportSource::create();
        is->setUrl(i.href);
        if (!i.iid.empty()) is->setId(i.iid);
        if (i.src >= 0) shared[i.src] = is;
        return is;
    };
    for (auto &u : s.units) {
        auto x = libcellml::Units::create();
        x->setName(u.name);
        if (!u.id.empty()) x->setId(u.id);
        if (u.imp.on) {
            x->setImportSource(source(u.imp));
            x->setImportReference(u.imp.ref);
        }
        for (auto &k : u.kids) x->addUnit(k.ref, k.prefix, k.exp, k.mult, k.id);
        m->addUnits(x);
    }
    std::vector<ComponentPtr> cs;
    for (auto &c : s.comps) {
        auto x = Component::create();
        x->setName(c.name);
        if (!c.id.empty()) x->setId(c.id);
        if (!c.eid.empty()) x->setEncapsulationId(c.eid);
        if (c.imp.on) {
            x->setImportSource(source(c.imp));
            x->setImportReference(c.imp.ref);
        }
        for (auto &v : c.vars) {
            auto y = Variable::create();
            y->setName(v.name);
            if (!v.id.empty()) y->setId(v.id);
            if (!v.units.empty()) y->setUnits(v.units);
            if (!v.init.empty()) y->setInitialValue(v.init);
            if (!v.iface.empty()) y->setInterfaceType(v.iface);
            x->addVariable(y);
        }
        for (auto &r : c.resets) {
            auto y = libcellml::Reset::create();
            if (r.var >= 0) y->setVariable(x->variable(size_t(r.var)));
            if (r.test >= 0) y->setTestVariable(x->variable(size_t(r.test)));
            if (r.hasOrder) y->setOrder(r.order);
            if (!r.id.empty()) y->setId(r.id);
            if (!r.tid.empty()) y->setTestValueId(r.tid);
            if (!r.rid.empty()) y->setResetValueId(r.rid);
            if (r.hasTest) y->setTestValue(mathXml(r.testMath, NS20, 0));
            if (r.hasValue) y->setResetValue(mathXml(r.valueMath, NS20, 0));
            x->addReset(y);
        }
        for (size_t k = 0; k < c.math.size(); ++k) {
            if (k == 0) x->setMath(mathXml(c.math[k], NS20, 0));
            else x->appendMath(mathXml(c.math[k], NS20, 0));
        }
        cs.push_back(x);
    }
    for (size_t i = 0; i < s.comps.size(); ++i) {
        if (s.comps[i].parent < 0) m->addComponent(cs[i]);
        else cs[size_t(s.comps[i].parent)]->addComponent(cs[i]);
    }
    auto var = [&](int c, int v) { return cs[size_t(c)]->variable(size_t(v)); };
    // Every pair is given its mapping id AND the connection id of its component pair (the 4-argument overload the
    // parser itself uses).  Variable::setEquivalenceConnectionId is not used: when one variable is mapped to two
    // variables of the other component it reaches only the first of them (createConnectionMap is keyed by variable_1),
    // which leaves per-pair-inconsistent ids that no document can express (DESIGN C02 domain note 2).
    for (auto &k : s.conns) Variable::addEquivalence(var(k.c1, k.v1), var(k.c2, k.v2), k.mid, cidOf(s, k.c1, k.c2));
    m->linkUnits();
    return m;
}

// ------------------------------------------------------------------ renderer 2: CellML 2.0 text
struct ImportGroup
{
    Import head;
    std::vector<int> units, comps;
};
inline std::vector<ImportGroup> importGroups(const Spec &s)
{ // one <import> element per source object, in first-use order (units first: any order is legal)
    std::vector<ImportGroup> g;
    auto slot = [&](const Import &i) -> ImportGroup & {
        if (i.src >= 0) for (auto &x : g) if (x.head.src == i.src) return x;
        g.push_back({i, {}, {}});
        return g.back();
    };
    for (size_t i = 0; i < s.units.size(); ++i) if (s.units[i].imp.on) slot(s.units[i].imp).units.push_back(int(i));
    for (size_t i = 0; i < s.comps.size(); ++i) if (s.comps[i].imp.on) slot(s.comps[i].imp).comps.push_back(int(i));
    return g;
}
struct ConnGroup
{
    int ca, cb;
    std::vector<Conn> maps; // oriented ca -> cb
};
inline std::vector<ConnGroup> connGroups(const Spec &s)
{
    std::vector<ConnGroup> g;
    for (auto &k : s.conns) {
        ConnGroup *hit = nullptr;
        for (auto &x : g) if ((x.ca == k.c1 && x.cb == k.c2) || (x.ca == k.c2 && x.cb == k.c1)) hit = &x;
        if (!hit) { g.push_back({k.c1, k.c2, {}}); hit = &g.back(); }
        Conn o = k;
        if (o.c1 != hit->ca) { std::swap(o.c1, o.c2); std::swap(o.v1, o.v2); }
        hit->maps.push_back(o);
    }
    return g;
}

inline std::string xml20(const Spec &s, int cnDecl = 0)
{
    std::string x = "<?xml version=\"1.0\" encoding=\"UTF-8\"?>\n<model xmlns=\"" + std::string(NS20) + "\"";
    if (cnDecl == 2) x += std::string(" xmlns:cellml=\"") + NS20 + "\"";
    x += att("name", s.name) + attIf("id", s.id) + ">\n";
    for (auto &g : importGroups(s)) {
        x += std::string("  <import xmlns:xlink=\"") + NSXLINK + "\"" + att("xlink:href", g.head.href) + attIf("id", g.head.iid) + ">\n";
        for (int i : g.units) x += "    <units" + att("units_ref", s.units[size_t(i)].imp.ref) + att("name", s.units[size_t(i)].name) + attIf("id", s.units[size_t(i)].id) + "/>\n";
        for (int i : g.comps) x += "    <component" + att("component_ref", s.comps[size_t(i)].imp.ref) + att("name", s.comps[size_t(i)].name) + attIf("id", s.comps[size_t(i)].id) + "/>\n";
        x += "  </import>\n";
    }
    for (auto &u : s.units) {
        if (u.imp.on) continue;
        x += "  <units" + att("name", u.name) + attIf("id", u.id);
        if (u.kids.empty()) { x += "/>\n"; continue; }
        x += ">\n";
        for (auto &k : u.kids) {
            x += "    <unit" + att("units", k.ref) + attIf("prefix", k.prefix);
            if (k.exp != 1.0) x += att("exponent", num(k.exp));
            if (k.mult != 1.0) x += att("multiplier", num(k.mult));
            x += attIf("id", k.id) + "/>\n";
        }
        x += "  </units>\n";
    }
    for (auto &c : s.comps) {
        if (c.imp.on) continue;
        x += "  <component" + att("name", c.name) + attIf("id", c.id) + ">\n";
        for (auto &v : c.vars) x += "    <variable" + att("name", v.name) + attIf("units", v.units) + attIf("initial_value", v.init) + attIf("interface", v.iface) + attIf("id", v.id) + "/>\n";
        for (auto &r : c.resets) {
            x += "    <reset";
            if (r.var >= 0) x += att("variable", c.vars[size_t(r.var)].name);
            if (r.test >= 0) x += att("test_variable", c.vars[size_t(r.test)].name);
            if (r.hasOrder) x += att("order", std::to_string(r.order));
            x += attIf("id", r.id) + ">\n";
            if (r.hasTest || !r.tid.empty()) x += "      <test_value" + attIf("id", r.tid) + ">" + (r.hasTest ? mathXml(r.testMath, NS20, cnDecl) : "") + "</test_value>\n";
            if (r.hasValue || !r.rid.empty()) x += "      <reset_value" + attIf("id", r.rid) + ">" + (r.hasValue ? mathXml(r.valueMath, NS20, cnDecl) : "") + "</reset_value>\n";
            x += "    </reset>\n";
        }
        for (auto &m : c.math) x += "    " + mathXml(m, NS20, cnDecl) + "\n";
        x += "  </component>\n";
    }
    for (auto &g : connGroups(s)) {
        x += "  <connection" + att("component_1", s.comps[size_t(g.ca)].name) + att("component_2", s.comps[size_t(g.cb)].name) + attIf("id", cidOf(s, g.ca, g.cb)) + ">\n";
        for (auto &k : g.maps) x += "    <map_variables" + att("variable_1", s.comps[size_t(k.c1)].vars[size_t(k.v1)].name) + att("variable_2", s.comps[size_t(k.c2)].vars[size_t(k.v2)].name) + attIf("id", k.mid) + "/>\n";
        x += "  </connection>\n";
    }
    if (hasHierarchy(s)) {
        x += "  <encapsulation" + attIf("id", s.eid) + ">\n";
        std::function<void(int, int)> ref = [&](int c, int depth) {
            auto kids = childrenOf(s, c);
            x += std::string(size_t(4 + 2 * depth), ' ') + "<component_ref" + att("component", s.comps[size_t(c)].name) + attIf("id", s.comps[size_t(c)].eid);
            if (kids.empty()) { x += "/>\n"; return; }
            x += ">\n";
            for (int k : kids) ref(k, depth + 1);
            x += std::string(size_t(4 + 2 * depth), ' ') + "</component_ref>\n";
        };
        for (int r : childrenOf(s, -1)) if (!childrenOf(s, r).empty()) ref(r, 0);
        x += "  </encapsulation>\n";
    }
    return x + "</model>\n";
}

// ------------------------------------------------------------------ renderer 3: CellML 1.0 / 1.1 text under legacy choices
struct Legacy
{
    int ns = 1;           // 0: CellML 1.0 namespace, 1: CellML 1.1
    int group = 0;        // 0 one encapsulation group; 1 + a containment group BEFORE it; 2 + a containment group AFTER it;
                          // 3 the one group carries both relationship_refs (containment first)
    int mapcomp = 0;      // 0 map_components is the first child of connection, 1 the last
    int ifOrder = 0;      // 0 public_interface before private_interface, 1 the other way round
    int inout = 0;        // 0 public=in/private=out, 1 public=out/private=in, 2 out/out
    int explicitNone = 0; // 1: the default "none" is spelled out instead of omitting the attribute
    int unitsPlace = 0;   // 1: units used by exactly one component (and by no other units) are declared inside it
    int idStyle = 0;      // 0 cmeta:id, 1 id
    int spelling = 0;     // 1: litre/metre are spelled liter/meter (variable units and unit references; see cnSpelling)
    int cnDecl = 0;       // prefix for cellml:units declared on 0 math, 1 cn, 2 the model element
    int dropped = 0;      // 1: 1.x-only constructs present (RDF block on model/component/variable, reaction+role, base_units="yes")
    int cnSpelling = 0;   // 1: liter/meter also in cellml:units on cn (separate dimension; not part of the product by default)
    // child ORDER wherever CellML 1.x leaves it open (0 = the canonical order used by all other dimensions)
    int relPos = 0;       // relationship_ref(s) of the encapsulation group: 0 before the component_ref trees, 1 after them, 2 between the
                          // first and the second tree; group==3 only: 3 containment first + encapsulation last, 4 encapsulation first + containment last
    int relSwap = 0;      // group==3: 1 = the encapsulation relationship_ref comes before the containment one
    int modelOrder = 0;   // rank of the permutation of the model's child blocks present out of [RDF, imports, units, components, groups, connections]
    int compOrder = 0;    // rank of the permutation of the component child kinds present out of [RDF, units, variables, reaction, math]
    int importOrder = 0;  // 1: components before units inside an import, and the import elements in reverse order
    // mapcomp additionally takes the value 2: map_components after the first map_variables (between two of them when there are several)
    json toJson() const
    {
        return {{"ns", ns ? "1.1" : "1.0"}, {"group", group}, {"mapcomp", mapcomp}, {"ifOrder", ifOrder}, {"inout", inout}, {"explicitNone", explicitNone},
                {"unitsPlace", unitsPlace}, {"idStyle", idStyle}, {"spelling", spelling}, {"cnDecl", cnDecl}, {"dropped", dropped}, {"cnSpelling", cnSpelling},
                {"relPos", relPos}, {"relSwap", relSwap}, {"modelOrder", modelOrder}, {"compOrder", compOrder}, {"importOrder", importOrder}};
    }
};
inline bool usesSpelling(const Spec &s)
{
    auto hit = [](const std::string &n) { return n == "litre" || n == "metre"; };
    for (auto &u : s.units) for (auto &k : u.kids) if (hit(k.ref)) return true;
    for (auto &c : s.comps) for (auto &v : c.vars) if (hit(v.units)) return true;
    return false;
}
inline bool cnUsesSpelling(const Spec &s)
{
    auto hit = [](const MathBlock &b) { for (auto &e : b.eqs) if (e.units == "litre" || e.units == "metre") return true; return false; };
    for (auto &c : s.comps) {
        for (auto &m : c.math) if (hit(m)) return true;
        for (auto &r : c.resets) if ((r.hasTest && hit(r.testMath)) || (r.hasValue && hit(r.valueMath))) return true;
    }
    return false;
}
// component a units definition may move into (1.x scope rules: used by that component only, not referenced by other units)
inline int unitsHome(const Spec &s, size_t ui)
{
    const auto &u = s.units[ui];
    if (u.imp.on) return -1;
    for (auto &o : s.units) for (auto &k : o.kids) if (k.ref == u.name) return -1;
    for (auto &k : u.kids) for (auto &o : s.units) if (o.name == k.ref) return -1; // keeps referenced user units in scope
    int home = -1;
    for (size_t c = 0; c < s.comps.size(); ++c) {
        bool uses = false;
        for (auto &v : s.comps[c].vars) if (v.units == u.name) uses = true;
        for (auto &m : s.comps[c].math) for (auto &e : m.eqs) if (e.units == u.name) uses = true;
        if (!uses) continue;
        if (home >= 0 || s.comps[c].imp.on) return -1;
        home = int(c);
    }
    return home;
}
inline bool hasAnyId(const Spec &s)
{
    if (!s.id.empty() || !s.cids.empty()) return true;
    for (auto &u : s.units) { if (!u.id.empty() || !u.imp.iid.empty()) return true; for (auto &k : u.kids) if (!k.id.empty()) return true; }
    for (auto &c : s.comps) { if (!c.id.empty() || !c.eid.empty() || !c.imp.iid.empty()) return true; for (auto &v : c.vars) if (!v.id.empty()) return true; }
    for (auto &k : s.conns) if (!k.mid.empty()) return true;
    return false;
}
// radices of the legacy dimensions that are APPLICABLE to this spec (an inapplicable dimension has radix 1, so no
// document is generated twice).  Order: ns, group, mapcomp, ifStyle, inout, unitsPlace, idStyle, spelling, cnDecl, dropped.
// ifStyle enumerates (explicitNone, ifOrder): the attribute order is observable only where both attributes are written,
// i.e. on a public_and_private variable, or on any variable once "none" is spelled out.
inline std::vector<std::pair<int, int>> ifStyles(const Spec &s)
{
    bool anyBoth = false, anyPartial = false;
    for (auto &c : s.comps) if (!c.imp.on) for (auto &v : c.vars) {
        bool pub = v.iface == "public" || v.iface == "public_and_private", priv = v.iface == "private" || v.iface == "public_and_private";
        if (pub && priv) anyBoth = true;
        if (!pub || !priv) anyPartial = true;
    }
    std::vector<std::pair<int, int>> r = {{0, 0}};
    if (anyBoth) r.push_back({0, 1});
    if (anyPartial) { r.push_back({1, 0}); r.push_back({1, 1}); }
    return r;
}
inline std::vector<uint64_t> legacyRadices(const Spec &s)
{
    bool anyIface = false, anyHome = false;
    for (auto &c : s.comps) if (!c.imp.on) for (auto &v : c.vars) if (v.iface == "public" || v.iface == "private" || v.iface == "public_and_private") anyIface = true;
    for (size_t i = 0; i < s.units.size(); ++i) if (unitsHome(s, i) >= 0) anyHome = true;
    return {hasImports(s) ? 1u : 2u,
            hasHierarchy(s) ? 4u : 1u,
            s.conns.empty() ? 1u : 2u,
            uint64_t(ifStyles(s).size()),
            anyIface ? 3u : 1u,
            anyHome ? 2u : 1u,
            hasAnyId(s) ? 2u : 1u,
            usesSpelling(s) ? 2u : 1u,
            mathUsesCn(s) ? 3u : 1u,
            2u};
}
inline uint64_t legacyCount(const Spec &s)
{
    uint64_t n = 1;
    for (auto r : legacyRadices(s)) n *= r;
    return n;
}
inline Legacy legacyAt(const Spec &s, uint64_t i)
{
    auto rd = legacyRadices(s);
    Radix r(i);
    Legacy l;
    l.ns = rd[0] == 1 ? 1 : int(r.take(2));
    l.group = int(r.take(rd[1]));
    l.mapcomp = int(r.take(rd[2]));
    auto st = ifStyles(s)[size_t(r.take(rd[3]))];
    l.explicitNone = st.first;
    l.ifOrder = st.second;
    l.inout = int(r.take(rd[4]));
    l.unitsPlace = int(r.take(rd[5]));
    l.idStyle = int(r.take(rd[6]));
    l.spelling = int(r.take(rd[7]));
    l.cnDecl = int(r.take(rd[8]));
    l.dropped = int(r.take(rd[9]));
    return l;
}

inline std::vector<int> unrankPerm(uint64_t rank, int n);
// which child blocks a model / the components of a spec have under the given choices (the order dimensions permute these)
inline std::vector<char> modelBlocks(const Spec &s, const Legacy &l)
{
    std::vector<char> b;
    if (l.dropped) b.push_back('R');
    if (hasImports(s)) b.push_back('I');
    bool modelUnits = false;
    for (size_t i = 0; i < s.units.size(); ++i) if (!s.units[i].imp.on && !(l.unitsPlace && unitsHome(s, i) >= 0)) modelUnits = true;
    if (modelUnits) b.push_back('U');
    bool local = false;
    for (auto &c : s.comps) if (!c.imp.on) local = true;
    if (local) b.push_back('C');
    if (hasHierarchy(s)) b.push_back('G');
    if (!s.conns.empty()) b.push_back('K');
    return b;
}
inline std::vector<char> componentKinds(const Spec &s, const Legacy &l)
{
    bool u = false, v = false, m = false;
    for (size_t ci = 0; ci < s.comps.size(); ++ci) {
        if (s.comps[ci].imp.on) continue;
        if (l.unitsPlace) for (size_t i = 0; i < s.units.size(); ++i) if (unitsHome(s, i) == int(ci)) u = true;
        if (!s.comps[ci].vars.empty()) v = true;
        if (!s.comps[ci].math.empty()) m = true;
    }
    std::vector<char> k;
    if (l.dropped) k.push_back('R');
    if (u) k.push_back('U');
    if (v) k.push_back('V');
    if (l.dropped && v) k.push_back('X');
    if (m) k.push_back('M');
    return k;
}
inline uint64_t factorial(size_t n) { uint64_t f = 1; for (size_t i = 2; i <= n; ++i) f *= i; return f; }
inline int encapsulationTrees(const Spec &s)
{
    int n = 0;
    for (int r : childrenOf(s, -1)) if (!childrenOf(s, r).empty()) ++n;
    return n;
}

inline std::string xml1x(const Spec &s, const Legacy &l)
{
    const char *ns = l.ns ? NS11 : NS10;
    auto idatt = [&](const std::string &v) { return v.empty() ? std::string() : att(l.idStyle ? "id" : "cmeta:id", v); };
    auto spell = [&](const std::string &n) { return !l.spelling ? n : n == "litre" ? std::string("liter") : n == "metre" ? std::string("meter") : n; };
    std::function<std::string(const std::string &)> cnSpell = [&](const std::string &n) { return !l.cnSpelling ? n : n == "litre" ? std::string("liter") : n == "metre" ? std::string("meter") : n; };
    const std::string rdf = std::string("<rdf:RDF xmlns:rdf=\"") + NSRDF + "\"><rdf:Description rdf:about=\"#x\"/></rdf:RDF>";
    std::string head = "<?xml version=\"1.0\" encoding=\"UTF-8\"?>\n<model xmlns=\"" + std::string(ns) + "\" xmlns:cmeta=\"" + NSCMETA + "\"";
    if (l.cnDecl == 2) head += std::string(" xmlns:cellml=\"") + ns + "\"";
    head += att("name", s.name) + idatt(s.id) + ">\n";
    std::map<char, std::string> block;
    if (l.dropped) block['R'] = "  " + rdf + "\n";
    {
        std::vector<std::string> imports;
        for (auto &g : importGroups(s)) {
            std::string x = std::string("  <import xmlns:xlink=\"") + NSXLINK + "\"" + att("xlink:href", g.head.href) + idatt(g.head.iid) + ">\n";
            std::string us, cs;
            for (int i : g.units) us += "    <units" + att("units_ref", s.units[size_t(i)].imp.ref) + att("name", s.units[size_t(i)].name) + idatt(s.units[size_t(i)].id) + "/>\n";
            for (int i : g.comps) cs += "    <component" + att("component_ref", s.comps[size_t(i)].imp.ref) + att("name", s.comps[size_t(i)].name) + idatt(s.comps[size_t(i)].id) + "/>\n";
            x += l.importOrder ? cs + us : us + cs;
            imports.push_back(x + "  </import>\n");
        }
        if (l.importOrder) std::reverse(imports.begin(), imports.end());
        for (auto &x : imports) block['I'] += x;
    }
    auto unitsXml = [&](const UnitsDef &u, const std::string &ind) {
        std::string y = ind + "<units" + att("name", u.name) + idatt(u.id);
        if (u.kids.empty()) return y + (l.dropped ? att("base_units", "yes") : std::string()) + "/>\n";
        y += ">\n";
        for (auto &k : u.kids) {
            y += ind + "  <unit" + att("units", spell(k.ref)) + attIf("prefix", k.prefix);
            if (k.exp != 1.0) y += att("exponent", num(k.exp));
            if (k.mult != 1.0) y += att("multiplier", num(k.mult));
            y += idatt(k.id) + "/>\n";
        }
        return y + ind + "</units>\n";
    };
    for (size_t i = 0; i < s.units.size(); ++i) {
        if (s.units[i].imp.on || (l.unitsPlace && unitsHome(s, i) >= 0)) continue;
        block['U'] += unitsXml(s.units[i], "  ");
    }
    auto kinds = componentKinds(s, l);
    std::vector<int> kperm = unrankPerm(uint64_t(l.compOrder) % factorial(kinds.size()), int(kinds.size()));
    for (size_t ci = 0; ci < s.comps.size(); ++ci) {
        auto &c = s.comps[ci];
        if (c.imp.on) continue;
        std::map<char, std::string> part;
        if (l.dropped) part['R'] = "    " + rdf + "\n";
        if (l.unitsPlace) for (size_t i = 0; i < s.units.size(); ++i) if (unitsHome(s, i) == int(ci)) part['U'] += unitsXml(s.units[i], "    ");
        for (auto &v : c.vars) {
            bool pub = v.iface == "public" || v.iface == "public_and_private", priv = v.iface == "private" || v.iface == "public_and_private";
            static const char *io[3][2] = {{"in", "out"}, {"out", "in"}, {"out", "out"}};
            std::string a = pub ? att("public_interface", io[l.inout][0]) : l.explicitNone ? att("public_interface", "none") : std::string();
            std::string b = priv ? att("private_interface", io[l.inout][1]) : l.explicitNone ? att("private_interface", "none") : std::string();
            part['V'] += "    <variable" + att("name", v.name) + attIf("units", spell(v.units)) + attIf("initial_value", v.init) + (l.ifOrder ? b + a : a + b) + idatt(v.id);
            if (l.dropped) part['V'] += ">" + rdf + "</variable>\n"; else part['V'] += "/>\n";
        }
        if (l.dropped && !c.vars.empty())
            part['X'] = "    <reaction reversible=\"no\"><variable_ref" + att("variable", c.vars[0].name) + "><role role=\"reactant\" direction=\"forward\" stoichiometry=\"1\"/></variable_ref></reaction>\n";
        for (auto &m : c.math) part['M'] += "    " + mathXml(m, ns, l.cnDecl, cnSpell) + "\n";
        block['C'] += "  <component" + att("name", c.name) + idatt(c.id) + ">\n";
        for (int k : kperm) block['C'] += part[kinds[size_t(k)]];
        block['C'] += "  </component>\n";
    }
    if (hasHierarchy(s)) {
        std::vector<std::string> trees;
        std::function<void(std::string &, int, int)> ref = [&](std::string &body, int c, int depth) {
            auto kids = childrenOf(s, c);
            body += std::string(size_t(4 + 2 * depth), ' ') + "<component_ref" + att("component", s.comps[size_t(c)].name) + idatt(s.comps[size_t(c)].eid);
            if (kids.empty()) { body += "/>\n"; return; }
            body += ">\n";
            for (int k : kids) ref(body, k, depth + 1);
            body += std::string(size_t(4 + 2 * depth), ' ') + "</component_ref>\n";
        };
        for (int r : childrenOf(s, -1)) if (!childrenOf(s, r).empty()) { trees.emplace_back(); ref(trees.back(), r, 0); }
        // the containment group lists the SAME components the other way up: if the parser took it for the encapsulation the hierarchy would be wrong
        std::string contain = "  <group>\n    <relationship_ref relationship=\"containment\" name=\"physical\"/>\n";
        {
            std::vector<int> leaves, roots;
            for (size_t i = 0; i < s.comps.size(); ++i) { if (s.comps[i].parent >= 0) leaves.push_back(int(i)); else if (!childrenOf(s, int(i)).empty()) roots.push_back(int(i)); }
            contain += "    <component_ref" + att("component", s.comps[size_t(leaves.front())].name) + ">\n      <component_ref" + att("component", s.comps[size_t(roots.front())].name) + "/>\n    </component_ref>\n  </group>\n";
        }
        const std::string relEnc = "    <relationship_ref relationship=\"encapsulation\"/>\n", relCon = "    <relationship_ref relationship=\"containment\" name=\"physical\"/>\n";
        std::string rels = l.group == 3 ? (l.relSwap ? relEnc + relCon : relCon + relEnc) : relEnc;
        std::string before, between, after;
        switch (l.relPos) {
        case 1: after = rels; break;
        case 2: if (trees.size() >= 2) between = rels; else after = rels; break;
        case 3: if (l.group == 3) { before = relCon; after = relEnc; } else after = rels; break;
        case 4: if (l.group == 3) { before = relEnc; after = relCon; } else before = rels; break;
        default: before = rels;
        }
        std::string enc = "  <group" + idatt(s.eid) + ">\n" + before; // the group is the only 1.x carrier of the 2.0 encapsulation id
        for (size_t t = 0; t < trees.size(); ++t) { enc += trees[t]; if (t == 0) enc += between; }
        enc += after + "  </group>\n";
        block['G'] = (l.group == 1 ? contain : std::string()) + enc + (l.group == 2 ? contain : std::string());
    }
    for (auto &g : connGroups(s)) {
        std::string mc = "    <map_components" + att("component_1", s.comps[size_t(g.ca)].name) + att("component_2", s.comps[size_t(g.cb)].name) + idatt(cidOf(s, g.ca, g.cb)) + "/>\n";
        std::string x = "  <connection>\n";
        if (l.mapcomp == 0) x += mc;
        for (size_t j = 0; j < g.maps.size(); ++j) {
            auto &k = g.maps[j];
            x += "    <map_variables" + att("variable_1", s.comps[size_t(k.c1)].vars[size_t(k.v1)].name) + att("variable_2", s.comps[size_t(k.c2)].vars[size_t(k.v2)].name) + idatt(k.mid) + "/>\n";
            if (l.mapcomp == 2 && j == 0) x += mc;
        }
        if (l.mapcomp == 1) x += mc;
        block['K'] += x + "  </connection>\n";
    }
    auto blocks = modelBlocks(s, l);
    std::string x = head;
    for (int k : unrankPerm(uint64_t(l.modelOrder) % factorial(blocks.size()), int(blocks.size()))) x += block[blocks[size_t(k)]];
    return x + "</model>\n";
}

// C14 compares interfaces modulo the documented default: an absent interface and "none" are the same thing
inline bool g_noneIsEmpty = false;
inline std::string normIface(const std::string &i) { return g_noneIsEmpty && i == "none" ? std::string() : i; }
inline std::string normCanon(std::string c)
{
    const std::string from = " if=\"none\"", to = " if=\"\"";
    for (size_t p = 0; (p = c.find(from, p)) != std::string::npos; p += to.size()) c.replace(p, from.size(), to);
    return c;
}

// ------------------------------------------------------------------ aspect dumps: WHICH part of the content differs (failure classes)
inline void aspectsOfComponent(const ComponentPtr &c, const std::string &path, std::map<std::string, std::string> &a)
{
    std::string me = path + "/" + c->name();
    a["hierarchy"] += me + ";";
    a["ids.component"] += me + "=" + q(c->id()) + ";";
    a["ids.component_ref"] += me + "=" + q(c->encapsulationId()) + ";";
    if (c->isImport()) {
        auto is = c->importSource();
        a["imports"] += me + "<-" + q(is ? is->url() : "<null>") + "#" + q(c->importReference()) + ";";
        a["ids.import"] += me + "=" + q(is ? is->id() : "") + ";";
    }
    a["math"] += me + "=[" + canonXml(c->math()) + "];";
    std::vector<std::string> vs, rs;
    for (size_t i = 0; i < c->variableCount(); ++i) {
        auto v = c->variable(i);
        std::string vn = me + "." + v->name();
        a["variables"] += vn + ";";
        a["variables.units"] += vn + "=" + (v->units() ? q(v->units()->name()) : "<none>") + ";";
        a["variables.initial_value"] += vn + "=" + q(v->initialValue()) + ";";
        a["variables.interface"] += vn + "=" + q(normIface(v->interfaceType())) + ";";
        a["ids.variable"] += vn + "=" + q(v->id()) + ";";
    }
    for (size_t i = 0; i < c->resetCount(); ++i) {
        auto r = c->reset(i);
        std::string key = me + ":reset(" + (r->variable() ? r->variable()->name() : "<null>") + "," + (r->testVariable() ? r->testVariable()->name() : "<null>") + ")";
        rs.push_back(key + (r->isOrderSet() ? " order=" + std::to_string(r->order()) : " order=<unset>") + " test=[" + canonXml(r->testValue()) + "] value=[" + canonXml(r->resetValue()) + "] ids=" + q(r->id()) + q(r->testValueId()) + q(r->resetValueId()));
    }
    std::sort(rs.begin(), rs.end());
    for (auto &x : rs) a["resets"] += x + ";";
    std::vector<ComponentPtr> kids;
    for (size_t i = 0; i < c->componentCount(); ++i) kids.push_back(c->component(i));
    std::sort(kids.begin(), kids.end(), [](const ComponentPtr &x, const ComponentPtr &y) { return x->name() < y->name(); });
    for (auto &k : kids) aspectsOfComponent(k, me, a);
}
inline std::map<std::string, std::string> aspects(const ModelPtr &m)
{
    std::map<std::string, std::string> a;
    if (!m) { a["model"] = "<null>"; return a; }
    a["model.name"] = m->name();
    a["ids.model"] = m->id();
    a["ids.encapsulation"] = m->encapsulationId();
    std::vector<std::string> us;
    for (size_t i = 0; i < m->unitsCount(); ++i) us.push_back(canonUnits(m->units(i), CanonOpt{false, true, true, true}));
    std::sort(us.begin(), us.end());
    for (auto &x : us) a["units"] += x;
    std::vector<std::string> uids;
    for (size_t i = 0; i < m->unitsCount(); ++i) {
        auto u = m->units(i);
        std::string s = u->name() + "=" + q(u->id()) + (u->isImport() && u->importSource() ? "@" + q(u->importSource()->id()) : "");
        for (size_t k = 0; k < u->unitCount(); ++k) s += "," + q(u->unitId(k));
        uids.push_back(s);
    }
    std::sort(uids.begin(), uids.end());
    for (auto &x : uids) a["ids.units"] += x + ";";
    std::vector<ComponentPtr> cs;
    for (size_t i = 0; i < m->componentCount(); ++i) cs.push_back(m->component(i));
    std::sort(cs.begin(), cs.end(), [](const ComponentPtr &x, const ComponentPtr &y) { return x->name() < y->name(); });
    for (auto &c : cs) aspectsOfComponent(c, "", a);
    a["equivalences"] = canonEquivalences(m, CanonOpt{false, true, true, true});
    a["ids.mapping+connection"] = canonEquivalences(m, CanonOpt{true, true, true, true});
    return a;
}
inline std::string diffAspects(const ModelPtr &x, const ModelPtr &y)
{
    auto a = aspects(x), b = aspects(y);
    std::set<std::string> keys;
    for (auto &e : a) keys.insert(e.first);
    for (auto &e : b) keys.insert(e.first);
    std::string r;
    bool eqDiffers = a["equivalences"] != b["equivalences"];
    for (auto &k : keys) {
        if (a[k] == b[k]) continue;
        if (k == "ids.mapping+connection" && eqDiffers) continue; // already reported as 'equivalences'
        r += (r.empty() ? "" : "+") + k;
    }
    return r.empty() ? "unclassified" : r;
}

// ------------------------------------------------------------------ combinatorics
inline uint64_t choose(uint64_t n, uint64_t k)
{
    if (k > n) return 0;
    uint64_t r = 1;
    for (uint64_t i = 1; i <= k; ++i) r = r * (n - k + i) / i;
    return r;
}
inline std::vector<int> unrankSubset(uint64_t rank, int n, int k)
{ // k-subsets of {0..n-1} in lexicographic order
    std::vector<int> r;
    int x = 0;
    for (int i = 0; i < k; ++i) {
        for (;; ++x) {
            uint64_t c = choose(uint64_t(n - x - 1), uint64_t(k - i - 1));
            if (rank < c) break;
            rank -= c;
        }
        r.push_back(x++);
    }
    return r;
}
inline std::vector<int> unrankPerm(uint64_t rank, int n)
{
    std::vector<int> pool, r;
    for (int i = 0; i < n; ++i) pool.push_back(i);
    uint64_t f = 1;
    for (int i = 2; i <= n; ++i) f *= uint64_t(i);
    for (int i = n; i >= 1; --i) {
        f /= uint64_t(i);
        size_t k = size_t(rank / f);
        rank %= f;
        r.push_back(pool[k]);
        pool.erase(pool.begin() + long(k));
    }
    return r;
}
inline std::vector<std::vector<int>> forests(int k)
{ // all labelled rooted forests on k nodes as parent vectors: (k+1)^(k-1) of them
    std::vector<std::vector<int>> out;
    std::vector<int> p(size_t(k), -1);
    uint64_t total = 1;
    for (int i = 0; i < k; ++i) total *= uint64_t(k);
    for (uint64_t code = 0; code < total; ++code) {
        uint64_t c = code;
        for (int i = 0; i < k; ++i) { int d = int(c % uint64_t(k)); c /= uint64_t(k); p[size_t(i)] = d == i ? -1 : d; } // digit i == i means "root"
        bool ok = true;
        for (int i = 0; i < k && ok; ++i) {
            int x = i, steps = 0;
            while (x >= 0 && steps++ <= k) x = p[size_t(x)];
            if (x >= 0) ok = false;
        }
        if (ok) out.push_back(p);
    }
    return out;
}
struct VarPair { int c1, v1, c2, v2; };
inline std::vector<VarPair> admissiblePairs(const std::vector<int> &parent, const std::vector<int> &nvars)
{
    std::vector<VarPair> r;
    int k = int(parent.size());
    for (int a = 0; a < k; ++a) for (int b = a + 1; b < k; ++b) {
        bool ok = parent[size_t(a)] == parent[size_t(b)] || parent[size_t(a)] == b || parent[size_t(b)] == a;
        if (!ok) continue;
        for (int x = 0; x < nvars[size_t(a)]; ++x) for (int y = 0; y < nvars[size_t(b)]; ++y) r.push_back({a, x, b, y});
    }
    return r;
}

// ------------------------------------------------------------------ a lazily decoded family
struct SpecFamily
{
    std::string name;
    std::function<uint64_t()> count;
    std::function<Spec(uint64_t)> at;
};
struct Block
{
    uint64_t count = 0;
    std::function<Spec(uint64_t)> at;
};
inline SpecFamily blockFamily(const std::string &name, std::vector<Block> blocks)
{
    auto pre = std::make_shared<std::vector<uint64_t>>();
    uint64_t t = 0;
    for (auto &b : blocks) { pre->push_back(t); t += b.count; }
    auto bl = std::make_shared<std::vector<Block>>(std::move(blocks));
    return {name, [t] { return t; }, [pre, bl, name](uint64_t i) {
                size_t k = size_t(std::upper_bound(pre->begin(), pre->end(), i) - pre->begin()) - 1;
                Spec s = (*bl)[k].at(i - (*pre)[k]);
                s.family = name;
                return s;
            }};
}
inline SpecFamily listFamily(const std::string &name, std::vector<Spec> specs)
{
    auto v = std::make_shared<std::vector<Spec>>(std::move(specs));
    for (auto &s : *v) s.family = name;
    return {name, [v] { return uint64_t(v->size()); }, [v](uint64_t i) { return v->at(size_t(i)); }};
}

// ------------------------------------------------------------------ family h: hierarchy + connections
struct HParams
{
    int kmax = 3;        // components
    int smax = 3;        // connections (subset size)
    bool twoVars = true; // also the pattern "two variables in every component"
    bool perms = true;   // all listing orders of the chosen connections
    int kFull = 99;      // for k > kFull only subsets of size <= sSmall are generated
    int sSmall = 1;
    std::vector<int> idpats = {0, 1, 2, 3, 4}; // id patterns used when there are connections (see hSpec)
    bool flips = true;                         // both orientations of the connections
    bool nameOrders = true;                    // names ascending and descending along the listing order
};
inline Spec hSpec(const std::vector<int> &parent, int nv, const std::vector<VarPair> &chosen, const std::vector<int> &perm, int flip, int idpat, int nameOrder)
{
    Spec s;
    int k = int(parent.size());
    static const char *names[] = {"ca", "cb", "cc", "cd", "ce"};
    for (int i = 0; i < k; ++i) {
        Comp c;
        c.name = names[nameOrder ? k - 1 - i : i];
        c.parent = parent[size_t(i)];
        for (int v = 0; v < nv; ++v) { Var y; y.name = v ? "y" : "x"; c.vars.push_back(y); } // the same names in every component: look-alikes
        s.comps.push_back(c);
    }
    for (size_t j = 0; j < chosen.size(); ++j) {
        VarPair p = chosen[size_t(perm[j])];
        Conn c{p.c1, p.v1, p.c2, p.v2, ""};
        if (flip) { std::swap(c.c1, c.c2); std::swap(c.v1, c.v2); }
        s.conns.push_back(c);
    }
    computeInterfaces(s);
    // idpat: 0 none; 1 mapping ids; 2 connection ids; 3 mapping + connection + entity ids; 4 mixed (first map_variables of each
    // connection has an id, every second connection has an id, entity ids on every second entity)
    bool hier = hasHierarchy(s);
    auto ent = [&](bool all) {
        int n = 0;
        if (all || (n++ % 2)) s.id = "i_m";
        if (hier && (all || (n++ % 2) == 0)) s.eid = "i_enc";
        for (auto &c : s.comps) {
            if (all || (n++ % 2)) c.id = "i_" + c.name;
            bool inEnc = c.parent >= 0 || !childrenOf(s, int(&c - &s.comps[0])).empty();
            if (inEnc && (all || (n++ % 2))) c.eid = "e_" + c.name;
            for (auto &v : c.vars) if (all || (n++ % 2)) v.id = "i_" + c.name + "_" + v.name;
        }
    };
    std::set<std::pair<int, int>> seenPair;
    int connNo = 0;
    for (size_t j = 0; j < s.conns.size(); ++j) {
        auto &c = s.conns[j];
        std::pair<int, int> key{std::min(c.c1, c.c2), std::max(c.c1, c.c2)};
        bool first = seenPair.insert(key).second;
        if (first) ++connNo;
        if (idpat == 1 || idpat == 3 || (idpat == 4 && first)) c.mid = "mid" + std::to_string(j);
        if (first && (idpat == 2 || idpat == 3 || (idpat == 4 && connNo % 2 == 1))) s.cids[key] = "cid" + std::to_string(connNo);
    }
    if (idpat == 3) ent(true);
    if (idpat == 4) ent(false);
    return s;
}
inline SpecFamily familyH(const std::string &name, const HParams &P)
{
    std::vector<Block> blocks;
    for (int k = 1; k <= P.kmax; ++k) {
        for (auto &parent : forests(k)) {
            for (int nv = 1; nv <= (P.twoVars ? 2 : 1); ++nv) {
                auto pairs = std::make_shared<std::vector<VarPair>>(admissiblePairs(parent, std::vector<int>(size_t(k), nv)));
                int smax = k > P.kFull ? P.sSmall : P.smax;
                for (int sz = 0; sz <= smax && sz <= int(pairs->size()); ++sz) {
                    uint64_t nsub = choose(pairs->size(), uint64_t(sz));
                    uint64_t nperm = 1;
                    if (P.perms) for (int i = 2; i <= sz; ++i) nperm *= uint64_t(i);
                    auto idpats = P.idpats;
                    uint64_t nflip = sz && P.flips ? 2 : 1, nid = sz ? idpats.size() : 2, nname = k > 1 && P.nameOrders ? 2 : 1;
                    Block b;
                    b.count = nsub * nperm * nflip * nid * nname;
                    b.at = [=](uint64_t i) {
                        Radix r(i);
                        auto sub = unrankSubset(r.take(nsub), int(pairs->size()), sz);
                        auto perm = unrankPerm(r.take(nperm), sz);
                        int flip = int(r.take(nflip));
                        int idpat = int(r.take(nid));
                        if (sz) idpat = idpats[size_t(idpat)]; else if (idpat) idpat = 3;
                        int nameOrder = int(r.take(nname));
                        std::vector<VarPair> chosen;
                        for (int x : sub) chosen.push_back((*pairs)[size_t(x)]);
                        return hSpec(parent, nv, chosen, perm, flip, idpat, nameOrder);
                    };
                    blocks.push_back(b);
                }
            }
        }
    }
    return blockFamily(name, blocks);
}

// ------------------------------------------------------------------ family v: variable attributes
inline SpecFamily familyV(const std::string &name)
{
    std::vector<Spec> out;
    for (const char *units : {"second", "ua", "litre"})
        for (const char *init : {"", "1.5", "-2e3", "y"})
            for (const char *iface : {"", "none", "public", "private", "public_and_private"})
                for (int ids = 0; ids < 2; ++ids) {
                    Spec s;
                    UnitsDef u; u.name = "ua"; u.kids.push_back({"second", "milli", 1.0, 1.0, ""});
                    if (ids) u.id = "i_ua";
                    s.units.push_back(u);
                    Comp c; c.name = "ca";
                    Var x; x.name = "x"; x.units = units; x.init = init; x.iface = iface; if (ids) x.id = "i_x";
                    Var y; y.name = "y"; y.units = units; // the initial value "y" refers to it
                    c.vars = {x, y};
                    if (ids) { c.id = "i_ca"; s.id = "i_m"; }
                    s.comps.push_back(c);
                    out.push_back(s);
                }
    return listFamily(name, out);
}

// ------------------------------------------------------------------ family u: units
struct UAttr { const char *prefix; double exp, mult; };
inline std::vector<UAttr> unitAttrMenu()
{
    std::vector<UAttr> m;
    for (const char *p : {"", "milli", "3"}) for (double e : {1.0, 2.0, -1.5}) for (double x : {1.0, 0.1, 1000.0}) m.push_back({p, e, x});
    return m;
}
inline Spec uFinish(Spec s, int ids)
{ // a variable per units definition + one in seconds; optional ids on every carrier
    Comp c; c.name = "ca";
    int n = 0;
    for (auto &u : s.units) { Var v; v.name = "v" + std::to_string(n++); v.units = u.name; c.vars.push_back(v); }
    Var t; t.name = "t"; c.vars.push_back(t);
    s.comps.push_back(c);
    if (ids) {
        int k = 0;
        for (auto &u : s.units) { u.id = "i_" + u.name; for (auto &x : u.kids) x.id = "i_unit" + std::to_string(k++); }
    }
    return s;
}
inline SpecFamily familyU(const std::string &name, bool thorough)
{
    auto menu = std::make_shared<std::vector<UAttr>>(unitAttrMenu());
    std::vector<Block> blocks;
    const uint64_t A = menu->size(); // 27
    auto kid = [menu](const std::string &ref, uint64_t a) { auto &m = (*menu)[size_t(a)]; return Unit{ref, m.prefix, m.exp, m.mult, ""}; };
    static const char *stdRefs[] = {"second", "metre"};
    // (1) one units definition with 0, 1 or 2 unit children: reference x prefix x exponent x multiplier, all combinations
    { Block b; b.count = 2; b.at = [](uint64_t i) { Spec s; UnitsDef u; u.name = "ua"; s.units.push_back(u); return uFinish(s, int(i)); }; blocks.push_back(b); }
    { Block b; b.count = 2 * A * 2; b.at = [=](uint64_t i) { Radix r(i); Spec s; UnitsDef u; u.name = "ua"; int rf = int(r.take(2)); u.kids.push_back(kid(stdRefs[rf], r.take(A))); s.units.push_back(u); return uFinish(s, int(r.take(2))); }; blocks.push_back(b); }
    { Block b; b.count = (2 * A) * (2 * A); b.at = [=](uint64_t i) { Radix r(i); Spec s; UnitsDef u; u.name = "ua"; for (int j = 0; j < 2; ++j) { int rf = int(r.take(2)); u.kids.push_back(kid(stdRefs[rf], r.take(A))); } s.units.push_back(u); return uFinish(s, 0); }; blocks.push_back(b); }
    // (2) two definitions, the second refers to the first (or not) with every attribute combination; both listing orders
    { Block b; b.count = 2 * 2 * A * 2 * 2;
      b.at = [=](uint64_t i) {
          Radix r(i); Spec s;
          UnitsDef u0; u0.name = "ua"; if (r.take(2)) u0.kids.push_back({"second", "milli", 2.0, 0.1, ""});
          UnitsDef u1; u1.name = "ub"; int rf = int(r.take(2)); u1.kids.push_back(kid(rf ? "ua" : "second", r.take(A)));
          if (r.take(2)) u1.kids.push_back({"metre", "", 1.0, 1.0, ""});
          if (r.take(2)) s.units = {u1, u0}; else s.units = {u0, u1};
          return uFinish(s, 1);
      };
      blocks.push_back(b); }
    // (3) three definitions: every acyclic reference structure over a diagonal of attribute combinations, every listing order
    {
        static const UAttr diag[] = {{"", 1.0, 1.0}, {"milli", 2.0, 0.1}, {"3", -1.5, 1000.0}};
        auto dk = [](const std::string &ref, uint64_t a) { return Unit{ref, diag[a].prefix, diag[a].exp, diag[a].mult, ""}; };
        uint64_t n1 = thorough ? (6 + 36) : 6, n2 = 9 + 81;
        Block b; b.count = n1 * n2 * 6;
        b.at = [=](uint64_t i) {
            Radix r(i); Spec s;
            UnitsDef u0, u1, u2; u0.name = "ua"; u1.name = "ub"; u2.name = "uc";
            static const char *r1[] = {"second", "ua"}; static const char *r2[] = {"second", "ua", "ub"};
            uint64_t c1 = r.take(n1), c2 = r.take(n2);
            if (c1 < 6) u1.kids.push_back(dk(r1[c1 % 2], c1 / 2)); else { c1 -= 6; u1.kids.push_back(dk(r1[c1 % 2], (c1 / 2) % 3)); c1 /= 6; u1.kids.push_back(dk(r1[c1 % 2], c1 / 2)); }
            if (c2 < 9) u2.kids.push_back(dk(r2[c2 % 3], c2 / 3)); else { c2 -= 9; u2.kids.push_back(dk(r2[c2 % 3], (c2 / 3) % 3)); c2 /= 9; u2.kids.push_back(dk(r2[c2 % 3], c2 / 3)); }
            std::vector<UnitsDef> all = {u0, u1, u2};
            for (int p : unrankPerm(r.take(6), 3)) s.units.push_back(all[size_t(p)]);
            return uFinish(s, 0);
        };
        blocks.push_back(b);
    }
    return blockFamily(name, blocks);
}

// ------------------------------------------------------------------ family r: resets
inline MathBlock bareCn(const std::string &v) { return MathBlock{{Eq{"", v, "second"}}}; }
inline SpecFamily familyR(const std::string &name, bool thorough)
{
    std::vector<Spec> out;
    auto base = [] {
        Spec s; Comp c; c.name = "ca";
        Var x; x.name = "x"; Var y; y.name = "y";
        c.vars = {x, y}; s.comps.push_back(c); return s;
    };
    out.push_back(base()); // no reset
    // one reset: variable x test_variable x order value x id pattern x shape
    // shape: 0 valid (order, both maths); 1 order unset; 2 no test_value at all; 3 empty test_value carrying an id only; 4 no children
    for (int var = 0; var < 2; ++var) for (int test = 0; test < 2; ++test)
        for (int order : {1, -2, 0}) for (int ids = 0; ids < (thorough ? 8 : 2); ++ids) for (int shape = 0; shape < 5; ++shape) {
            if (shape && (order != 1)) continue;
            Spec s = base();
            ResetDef r; r.var = var; r.test = test; r.order = order;
            int bits = thorough ? ids : (ids ? 7 : 0);
            if (bits & 1) r.id = "i_r";
            if (bits & 2) r.tid = "i_tv";
            if (bits & 4) r.rid = "i_rv";
            r.testMath = bareCn("1"); r.valueMath = bareCn("2.5");
            if (shape == 1) r.hasOrder = false;
            if (shape == 2) { r.hasTest = false; r.tid.clear(); }
            if (shape == 3) { r.hasTest = false; r.tid = "i_tv"; }
            if (shape == 4) { r.hasTest = r.hasValue = false; r.tid.clear(); r.rid.clear(); }
            s.valid = shape == 0;
            s.comps[0].resets.push_back(r);
            out.push_back(s);
        }
    // two resets in one component, distinct orders, both listing orders
    for (int swap = 0; swap < 2; ++swap) for (int sameVar = 0; sameVar < 2; ++sameVar) {
        Spec s = base();
        ResetDef a, b; a.var = 0; a.test = 1; a.order = 1; a.id = "i_r1"; b.var = sameVar ? 0 : 1; b.test = 0; b.order = 2; b.id = "i_r2";
        a.testMath = bareCn("1"); a.valueMath = bareCn("2"); b.testMath = bareCn("3"); b.valueMath = bareCn("4");
        s.comps[0].resets = swap ? std::vector<ResetDef>{b, a} : std::vector<ResetDef>{a, b};
        out.push_back(s);
    }
    // two resets on EQUIVALENT variables in two components (siblings, then parent/child), distinct orders
    for (int hier = 0; hier < 2; ++hier) for (int ordA : {1, 2}) {
        Spec s = base();
        Comp d = s.comps[0]; d.name = "cb"; if (hier) d.parent = 0;
        s.comps.push_back(d);
        s.conns.push_back({0, 0, 1, 0, "i_map"});
        s.cids[{0, 1}] = "i_conn";
        computeInterfaces(s);
        ResetDef a, b; a.var = 0; a.test = 1; a.order = ordA; b.var = 0; b.test = 1; b.order = 3 - ordA;
        a.testMath = bareCn("1"); a.valueMath = bareCn("2"); b.testMath = bareCn("3"); b.valueMath = bareCn("4");
        s.comps[0].resets.push_back(a); s.comps[1].resets.push_back(b);
        out.push_back(s);
    }
    return listFamily(name, out);
}

// ------------------------------------------------------------------ family i: imports
inline SpecFamily familyI(const std::string &name, bool thorough)
{
    std::vector<Spec> out;
    int kmax = thorough ? 3 : 2;
    for (int k = 1; k <= kmax; ++k) for (auto &parent : forests(k)) for (unsigned mask = 0; mask < (1u << k); ++mask) for (int nu = 0; nu <= 2; ++nu) {
        int nimp = nu;
        for (int i = 0; i < k; ++i) if (mask & (1u << i)) ++nimp;
        if (!nimp) continue;
        for (int share = 0; share < (nimp > 1 ? 3 : 1); ++share) for (int iid = 0; iid < 2; ++iid) {
            // connections: none, each single admissible pair, each pair of admissible pairs (one variable "x" per component)
            auto pairs = admissiblePairs(parent, std::vector<int>(size_t(k), 1));
            std::vector<std::vector<int>> subsets = {{}};
            for (int a = 0; a < int(pairs.size()); ++a) { subsets.push_back({a}); if (thorough || k <= 2) for (int b = a + 1; b < int(pairs.size()); ++b) subsets.push_back({a, b}); }
            for (auto &sub : subsets) {
                Spec s;
                static const char *cn[] = {"ca", "cb", "cc"};
                int ent = 0;
                auto mkImport = [&](const std::string &ref) {
                    Import im; im.on = true; im.ref = ref;
                    // share 0: separate source objects, distinct urls; 1: separate objects, the same url; 2: one shared object
                    im.href = share == 0 ? "lib" + std::to_string(ent) + ".cellml" : "lib.cellml";
                    im.src = share == 2 ? 0 : -1;
                    if (iid) im.iid = share == 2 ? "i_imp" : "i_imp" + std::to_string(ent);
                    ++ent;
                    return im;
                };
                for (int j = 0; j < nu; ++j) { UnitsDef u; u.name = j ? "ui2" : "ui"; u.imp = mkImport(j ? "src_u2" : "src_u"); if (iid) u.id = "i_" + u.name; s.units.push_back(u); }
                if (nu) { UnitsDef l; l.name = "ul"; l.kids.push_back({"ui", "kilo", 1.0, 1.0, ""}); s.units.push_back(l); } // a local definition on top of an imported one
                std::set<int> connected;
                for (int x : sub) { connected.insert(pairs[size_t(x)].c1); connected.insert(pairs[size_t(x)].c2); }
                for (int i = 0; i < k; ++i) {
                    Comp c; c.name = cn[i]; c.parent = parent[size_t(i)];
                    bool imp = mask & (1u << i);
                    if (imp) { c.imp = mkImport("src_" + c.name); if (iid) c.id = "i_" + c.name; }
                    // a placeholder variable exists in an imported component only when a connection names it
                    if (!imp || connected.count(i)) { Var v; v.name = "x"; if (imp) v.units.clear(); else if (nu && i == 0) v.units = "ui"; c.vars.push_back(v); }
                    s.comps.push_back(c);
                }
                bool unitsClash = false;
                for (int x : sub) {
                    auto &p = pairs[size_t(x)];
                    s.conns.push_back({p.c1, 0, p.c2, 0, iid ? "i_map" + std::to_string(x) : ""});
                    // a variable in imported units "ui" connected to one in seconds is a units mismatch the validator cannot see (unresolved): keep them apart
                    auto &a = s.comps[size_t(p.c1)], &b = s.comps[size_t(p.c2)];
                    if (!a.imp.on && !b.imp.on && a.vars[0].units != b.vars[0].units) unitsClash = true;
                }
                if (unitsClash) for (auto &c : s.comps) if (!c.imp.on) for (auto &v : c.vars) v.units = "second";
                computeInterfaces(s);
                for (auto &c : s.comps) if (c.imp.on) for (auto &v : c.vars) v.iface.clear(); // a placeholder has a name and nothing else
                out.push_back(s);
            }
        }
    }
    return listFamily(name, out);
}

// ------------------------------------------------------------------ family ip: imported components at EVERY position of the forest
// Every labelled rooted forest on <= kmax components x every non-empty import mask (so an imported component is top-level
// first/middle/last, a child or grandchild of a local component, the parent or the child of another imported component, with
// import-free siblings before and/or after at every level) x {no imported units, one imported units} x {own ImportSource per
// entity, one shared ImportSource} x {no ids, ids}.  No connections: the family is about where the <import> section comes from.
inline SpecFamily familyIP(const std::string &name, int kmax)
{
    std::vector<Block> blocks;
    static const char *cn[] = {"ca", "cb", "cc", "cd", "ce"};
    for (int k = 1; k <= kmax; ++k) for (auto &parent : forests(k)) for (unsigned mask = 1; mask < (1u << k); ++mask) for (int nu = 0; nu < 2; ++nu) {
        int nimp = nu;
        for (int i = 0; i < k; ++i) if (mask & (1u << i)) ++nimp;
        uint64_t nshare = nimp > 1 ? 2 : 1;
        Block b;
        b.count = nshare * 2;
        b.at = [=](uint64_t idx) {
            Radix r(idx);
            int share = int(r.take(nshare)), iid = int(r.take(2));
            Spec s;
            int ent = 0;
            auto mkImport = [&](const std::string &ref) {
                Import im; im.on = true; im.ref = ref;
                im.href = share ? "lib.cellml" : "lib" + std::to_string(ent) + ".cellml";
                im.src = share ? 0 : -1;
                if (iid) im.iid = share ? "i_imp" : "i_imp" + std::to_string(ent);
                ++ent;
                return im;
            };
            if (nu) { UnitsDef u; u.name = "ui"; u.imp = mkImport("src_u"); if (iid) u.id = "i_ui"; s.units.push_back(u); }
            for (int i = 0; i < k; ++i) {
                Comp c; c.name = cn[i]; c.parent = parent[size_t(i)];
                if (mask & (1u << i)) { c.imp = mkImport("src_" + c.name); if (iid) c.id = "i_" + c.name; }
                else { Var v; v.name = "x"; if (nu && i == 0) v.units = "ui"; c.vars.push_back(v); }
                if (iid && (c.parent >= 0)) c.eid = "e_" + c.name;
                s.comps.push_back(c);
            }
            return s;
        };
        blocks.push_back(b);
    }
    return blockFamily(name, blocks);
}

// ------------------------------------------------------------------ family m: math
inline SpecFamily familyM(const std::string &name)
{
    std::vector<Spec> out;
    // shape: 0 one block one equation; 1 one block two equations; 2 two blocks; 3 two components with a block each
    for (int shape = 0; shape < 4; ++shape) for (const char *units : {"second", "ua", "litre"}) for (int hier = 0; hier < 2; ++hier) {
        if (hier && shape != 3) continue;
        Spec s;
        UnitsDef u; u.name = "ua"; u.kids.push_back({"second", "milli", 1.0, 1.0, ""}); s.units.push_back(u);
        Comp c; c.name = "ca";
        Var x; x.name = "x"; x.units = units; Var y; y.name = "y"; y.units = units;
        c.vars = {x, y};
        Eq e1{"x", "1.5", units}, e2{"y", "2", units};
        if (shape == 0) c.math = {MathBlock{{e1}}};
        if (shape == 1) c.math = {MathBlock{{e1, e2}}};
        if (shape == 2) c.math = {MathBlock{{e1}}, MathBlock{{e2}}};
        if (shape == 3) c.math = {MathBlock{{e1}}};
        s.comps.push_back(c);
        if (shape == 3) { Comp d; d.name = "cb"; d.parent = hier ? 0 : -1; Var z; z.name = "x"; z.units = units; d.vars = {z}; d.math = {MathBlock{{Eq{"x", "3", units}}}}; s.comps.push_back(d); }
        out.push_back(s);
    }
    return listFamily(name, out);
}

} // namespace ms
