// FLAVOURS: asan plain
// C02 — printing then parsing a model preserves its content.
// (i)  every spec of the shared enumerator (modelspec.hpp): API-built model vs. my own XML rendering vs. print->parse->print->parse
// (ii) every string attribute position of a full-featured API-built model x a menu of awkward texts (one position, then all pairs)
#include "modelspec.hpp"

using namespace vf;

namespace {

bool wellFormed(const std::string &text)
{ // independent of libcellml's XmlDoc wrapper
    xmlDocPtr d = xmlReadMemory(text.data(), int(text.size()), "p.xml", nullptr, XML_PARSE_NOERROR | XML_PARSE_NOWARNING | XML_PARSE_NONET);
    if (!d) return false;
    bool ok = xmlDocGetRootElement(d) != nullptr;
    xmlFreeDoc(d);
    return ok;
}
std::string firstRule(const LoggerPtr &l)
{
    return l->issueCount() ? std::string(levelName(l->issue(0)->level())) + ":rule" + std::to_string(int(l->issue(0)->referenceRule())) : std::string("none");
}

// ------------------------------------------------------------------ service history (the property holds for ANY parser/printer a user holds)
// The read-back of a printed document is repeated with Parser objects that have a past, and the printing with a Printer
// that has a past.  Histories are a deterministic function of the case index (never of the shard), so every report replays.
//   fresh      a new strict parser (the base case)
//   producer   the parser has already read this very document once
//   after-1x   the parser read a CellML 1.1 document with connections/encapsulation in permissive mode, then was set back to strict
//   after-bad  the parser read a text that is not XML and a CellML 2.0 document full of errors
//   long-lived all of the above plus the documents of the neighbouring cases (what a parser reused across a whole run has seen)
// --hist=0 switches the dimension off (used by the quick tier for its largest family only).
bool histOn() { auto it = g_options.find("hist"); return it == g_options.end() || it->second != "0"; }
std::vector<std::string> g_neighbourDocs; // set by the family runner: documents of the cases i-1, i-2
const std::string &legacyDoc()
{
    static const std::string d = [] {
        ms::Spec s;
        ms::Comp a; a.name = "pa"; ms::Var x; x.name = "x"; x.units = "metre"; x.id = "i_lx"; a.vars = {x};
        ms::Comp b = a; b.name = "pb"; b.parent = 0; b.vars[0].id = "i_ly";
        s.comps = {a, b};
        s.conns.push_back({0, 0, 1, 0, "i_lmap"});
        s.cids[{0, 1}] = "i_lconn";
        ms::computeInterfaces(s);
        ms::Legacy l; l.spelling = 1; l.dropped = 1;
        return ms::xml1x(s, l);
    }();
    return d;
}
const std::vector<std::string> &badDocs()
{
    static const std::vector<std::string> d = {
        "<model xmlns=\"http://www.cellml.org/cellml/2.0#\" name=\"broken\"><component",
        "<?xml version=\"1.0\"?><model xmlns=\"http://www.cellml.org/cellml/2.0#\" bogus=\"1\"><units/><component><variable/><reset order=\"x\"/></component>"
        "<component name=\"c\"/><component name=\"c\"/><connection component_1=\"c\"><map_variables variable_1=\"q\"/></connection>"
        "<connection/><encapsulation><component_ref component=\"nope\"><component_ref/></component_ref></encapsulation><import/><foreign/>text</model>"};
    return d;
}
static const char *HISTORIES[] = {"producer", "after-1x", "after-bad", "long-lived"};
ParserPtr parserWithHistory(Ctx &c, int h, const std::string &document)
{
    auto p = Parser::create(true);
    auto feed = [&](const std::string &d, bool strict) { p->setStrict(strict); (void)p->parseModel(d); c.logger(p, "parser"); };
    if (h == 0 || h == 3) feed(document, true);
    if (h == 1 || h == 3) feed(legacyDoc(), false);
    if (h == 2 || h == 3) for (auto &d : badDocs()) feed(d, true);
    if (h == 3) for (auto &d : g_neighbourDocs) feed(d, true);
    p->setStrict(true);
    return p;
}
PrinterPtr printerWithHistory(Ctx &c)
{ // a printer that has already printed another, feature-rich model
    static const ModelPtr other = [] { auto p = Parser::create(true); return p->parseModel(ms::xml20(ms::familyM("m").at(14), 2)); }();
    auto pr = Printer::create();
    (void)pr->printModel(other);
    c.logger(pr, "printer");
    return pr;
}

// The round-trip oracle shared by both parts.  `m` is the original; `accepted`: the validator raised nothing on it.
// prefix distinguishes the part ("spec" / "text"), tail is appended to every signature (the character class for part ii).
struct RoundTrip
{
    bool printedEmpty = false, contentSame = true;
};
RoundTrip roundTrip(Ctx &c, const ModelPtr &m, bool accepted, const std::string &prefix, const std::string &tail, const json &what)
{
    RoundTrip rt;
    const std::string canonA = canonModel(m);
    auto printer = Printer::create();
    std::string text = printer->printModel(m);
    c.logger(printer, "printer");
    if (printer->issueCount()) c.violation(prefix + ":print:printer-raised-issue" + tail, {{"case", what}, {"issues", issuesJson(printer)}});
    if (text.empty()) {
        rt.printedEmpty = true;
        c.violation(prefix + ":print-empty" + tail, {{"case", what}});
        return rt;
    }
    if (!wellFormed(text)) {
        c.violation(prefix + ":print-not-well-formed" + tail, {{"case", what}, {"text", safe(text, 1500)}});
        return rt;
    }
    auto parser = Parser::create(true);
    auto m2 = parser->parseModel(text);
    c.logger(parser, "parser");
    if (canonModel(m2) != canonA) {
        rt.contentSame = false;
        c.violation(prefix + ":content-differs" + tail, {{"case", what}, {"aspects", ms::diffAspects(m, m2)}, {"original", safe(canonA, 1500)}, {"reparsed", safe(canonModel(m2), 1500)}, {"printed", safe(text, 1500)}});
    }
    if (accepted && parser->issueCount()) c.violation(prefix + ":parser-issue-on-printed-valid-model:" + firstRule(parser) + tail, {{"case", what}, {"issues", issuesJson(parser)}, {"printed", safe(text, 1500)}});
    // fixpoint: printing the re-parsed model gives the same content again
    auto printer2 = Printer::create();
    std::string text2 = printer2->printModel(m2);
    c.logger(printer2, "printer");
    auto parser3 = Parser::create(true);
    auto m3 = parser3->parseModel(text2);
    c.logger(parser3, "parser");
    if (rt.contentSame && (text2.empty() || canonModel(m3) != canonA))
        c.violation(prefix + ":fixpoint:second-print-differs" + tail, {{"case", what}, {"aspects", text2.empty() ? std::string("print-empty") : ms::diffAspects(m, m3)}, {"printed2", safe(text2, 1500)}});
    if (!histOn() || !rt.contentSame) return rt;
    // the same read-back by parsers with a past: same content, and still no issue on a validator-accepted model
    for (int h = 0; h < 4; ++h) {
        auto ph = parserWithHistory(c, h, text);
        auto mh = ph->parseModel(text);
        c.logger(ph, "parser");
        c.count("readbacks_with_history");
        if (canonModel(mh) != canonA)
            c.violation(prefix + ":readback[" + HISTORIES[h] + "]:content-differs" + tail, {{"case", what}, {"aspects", ms::diffAspects(m, mh)}, {"original", safe(canonA, 1500)}, {"reparsed", safe(canonModel(mh), 1500)}, {"printed", safe(text, 1500)}, {"issues", issuesJson(ph)}});
        else if (ph->issueCount() != parser->issueCount())
            c.violation(prefix + ":readback[" + HISTORIES[h] + "]:issues-differ-from-fresh-parser" + tail, {{"case", what}, {"fresh", issuesJson(parser)}, {"withHistory", issuesJson(ph)}, {"printed", safe(text, 1500)}});
    }
    // a printer with a past prints a document with the same content
    auto prh = printerWithHistory(c);
    std::string texth = prh->printModel(m);
    c.logger(prh, "printer");
    c.count("prints_with_history");
    if (texth != text) {
        auto pf = Parser::create(true);
        auto mp = pf->parseModel(texth);
        c.logger(pf, "parser");
        if (texth.empty() || canonModel(mp) != canonA)
            c.violation(prefix + ":print[reused-printer]:content-differs" + tail, {{"case", what}, {"aspects", texth.empty() ? std::string("print-empty") : ms::diffAspects(m, mp)}, {"printed", safe(texth, 1500)}});
    }
    return rt;
}

// ------------------------------------------------------------------ part (i): enumerated specs
void judgeSpec(const ms::Spec &s, Ctx &c)
{
    json what = c.verbose ? ms::toJson(s) : json{{"family", s.family}};
    auto m = ms::build(s);
    const std::string canonA = canonModel(m);
    auto validator = Validator::create();
    validator->validateModel(m);
    c.logger(validator, "validator");
    bool accepted = validator->issueCount() == 0;
    if (s.valid && !accepted) c.violation("c02:spec:valid-by-construction-model-rejected:" + firstRule(validator), {{"spec", ms::toJson(s)}, {"issues", issuesJson(validator)}});
    if (!s.valid && accepted) c.violation("c02:spec:generator-marked-invalid-but-accepted", {{"spec", ms::toJson(s)}});
    ++c.judged;
    c.outcome(std::string(accepted ? "accepted" : "refused:" + firstRule(validator)) + " comps=" + std::to_string(s.comps.size()) + " conns=" + std::to_string(s.conns.size()) + (ms::hasHierarchy(s) ? " hier" : "")
              + (ms::hasImports(s) ? " imports" : "") + (ms::hasMath(s) ? " math" : "") + (ms::hasAnyId(s) ? " ids" : ""));
    // my rendering of the same spec, read by the strict parser, against the API-built model
    for (int decl = 0; decl < (ms::mathUsesCn(s) ? 3 : 1); ++decl) {
        std::string mine = ms::xml20(s, decl);
        auto parser = Parser::create(true);
        auto mx = parser->parseModel(mine);
        c.logger(parser, "parser");
        if (canonModel(mx) != canonA)
            c.violation("c02:spec:handwritten-document-read-differently:" + ms::diffAspects(m, mx), {{"spec", ms::toJson(s)}, {"document", safe(mine, 2500)}, {"api", safe(canonA, 1500)}, {"parsed", safe(canonModel(mx), 1500)}, {"issues", issuesJson(parser)}});
        if (accepted && parser->issueCount()) c.violation("c02:spec:parser-issue-on-valid-handwritten-document:" + firstRule(parser), {{"spec", ms::toJson(s)}, {"document", safe(mine, 2500)}, {"issues", issuesJson(parser)}});
        if (decl == 0) roundTrip(c, mx, accepted, "c02:spec:parsed-model", "", ms::toJson(s)); // a model in the parser's own listing order
    }
    roundTrip(c, m, accepted, "c02:spec:api-model", "", ms::toJson(s));
}

// families are constructed on first use: a worker process only pays for the family it runs
vf::Family specFamily(const std::string &name, std::function<ms::SpecFamily()> make)
{
    auto cell = std::make_shared<std::optional<ms::SpecFamily>>();
    auto get = [cell, make]() -> const ms::SpecFamily & { if (!*cell) *cell = make(); return **cell; };
    return {name, [get] { return get().count(); },
            [get](uint64_t i, Ctx &c) {
                g_neighbourDocs.clear();
                if (histOn()) for (uint64_t k = 1; k <= 2 && k <= i; ++k) g_neighbourDocs.push_back(ms::xml20(get().at(i - k)));
                judgeSpec(get().at(i), c);
            },
            [get](uint64_t i) { auto s = get().at(i); return json{{"spec", ms::toJson(s)}, {"xml20", ms::xml20(s)}}; }};
}

// ------------------------------------------------------------------ part (ii): awkward text in every string attribute position
const std::vector<std::string> MENU = {"a&b", "a<b", "a>b", "a\"b", "a'b", "\xc3\xa9", "&amp;", "]]>", "a  b", "m?a=1&b=2", "\xc3\xa9\x31", "a\tb", "a\nb", "a\rb"};
std::string charClass(const std::string &t)
{
    if (t.find("&amp;") != std::string::npos) return "entity";
    if (t.find('&') != std::string::npos) return "amp";
    if (t.find('<') != std::string::npos) return "lt";
    if (t.find('"') != std::string::npos) return "quot";
    return "plain";
}
struct Base
{
    ModelPtr m;
    ComponentPtr ca, cb, ci;
    UnitsPtr ua, ui;
    VariablePtr ax, ay, bx;
    ImportSourcePtr isu, isc;
    ResetPtr reset;
    std::string unitRef = "second", unitPrefix = "milli", unitId = "i_unit";
    void rebuildUnit() { ua->removeAllUnits(); ua->addUnit(unitRef, unitPrefix, 1.0, 1.0, unitId); }
};
Base makeBase(bool withReset)
{
    Base b;
    b.m = Model::create("m");
    b.m->setId("i_m");
    b.m->setEncapsulationId("i_enc");
    b.isu = ImportSource::create(); b.isu->setUrl("lib_u.cellml"); b.isu->setId("i_impu");
    b.isc = ImportSource::create(); b.isc->setUrl("lib_c.cellml"); b.isc->setId("i_impc");
    b.ui = Units::create("ui"); b.ui->setId("i_ui"); b.ui->setImportSource(b.isu); b.ui->setImportReference("src_u");
    b.ua = Units::create("ua"); b.ua->setId("i_ua"); b.ua->addUnit("second", "milli", 1.0, 1.0, "i_unit");
    b.m->addUnits(b.ui); b.m->addUnits(b.ua);
    b.ca = Component::create("ca"); b.ca->setId("i_ca"); b.ca->setEncapsulationId("e_ca");
    b.cb = Component::create("cb"); b.cb->setId("i_cb"); b.cb->setEncapsulationId("e_cb");
    b.ci = Component::create("ci"); b.ci->setId("i_ci"); b.ci->setImportSource(b.isc); b.ci->setImportReference("src_c");
    b.ax = Variable::create("x"); b.ax->setUnits(b.ua); b.ax->setInitialValue("1.5"); b.ax->setInterfaceType("public_and_private"); b.ax->setId("i_ax");
    b.ay = Variable::create("y"); b.ay->setUnits("second"); b.ay->setId("i_ay");
    b.bx = Variable::create("x"); b.bx->setUnits(b.ua); b.bx->setInterfaceType("public"); b.bx->setId("i_bx");
    b.ca->addVariable(b.ax); b.ca->addVariable(b.ay); b.cb->addVariable(b.bx);
    b.m->addComponent(b.ca); b.ca->addComponent(b.cb); b.m->addComponent(b.ci);
    Variable::addEquivalence(b.ax, b.bx);
    Variable::setEquivalenceMappingId(b.ax, b.bx, "i_map");
    Variable::setEquivalenceConnectionId(b.ax, b.bx, "i_conn");
    if (withReset) {
        b.reset = Reset::create();
        b.reset->setVariable(b.ax); b.reset->setTestVariable(b.ay); b.reset->setOrder(1);
        b.reset->setId("i_r"); b.reset->setTestValueId("i_tv"); b.reset->setResetValueId("i_rv");
        b.reset->setTestValue(ms::mathXml(ms::bareCn("1"), ms::NS20, 0));
        b.reset->setResetValue(ms::mathXml(ms::bareCn("2"), ms::NS20, 0));
        b.ca->addReset(b.reset);
    }
    return b;
}
struct Position
{
    const char *name;
    bool needsReset;
    std::function<void(Base &, const std::string &)> set;
};
const std::vector<Position> &positions()
{
    static const std::vector<Position> P = {
        {"model.name", false, [](Base &b, const std::string &t) { b.m->setName(t); }},
        {"model.id", false, [](Base &b, const std::string &t) { b.m->setId(t); }},
        {"encapsulation.id", false, [](Base &b, const std::string &t) { b.m->setEncapsulationId(t); }},
        {"component.name(parent,connected)", false, [](Base &b, const std::string &t) { b.ca->setName(t); }},
        {"component.name(child,connected)", false, [](Base &b, const std::string &t) { b.cb->setName(t); }},
        {"component.id", false, [](Base &b, const std::string &t) { b.ca->setId(t); }},
        {"component_ref.id", false, [](Base &b, const std::string &t) { b.cb->setEncapsulationId(t); }},
        {"units.name(referenced)", false, [](Base &b, const std::string &t) { b.ua->setName(t); }},
        {"units.id", false, [](Base &b, const std::string &t) { b.ua->setId(t); }},
        {"unit.units", false, [](Base &b, const std::string &t) { b.unitRef = t; b.rebuildUnit(); }},
        {"unit.prefix", false, [](Base &b, const std::string &t) { b.unitPrefix = t; b.rebuildUnit(); }},
        {"unit.id", false, [](Base &b, const std::string &t) { b.unitId = t; b.rebuildUnit(); }},
        {"variable.name(connected)", false, [](Base &b, const std::string &t) { b.bx->setName(t); }},
        {"variable.name(unconnected)", false, [](Base &b, const std::string &t) { b.ay->setName(t); }},
        {"variable.id", false, [](Base &b, const std::string &t) { b.ax->setId(t); }},
        {"variable.units", false, [](Base &b, const std::string &t) { b.ay->setUnits(t); }},
        {"variable.initial_value", false, [](Base &b, const std::string &t) { b.ax->setInitialValue(t); }},
        {"variable.interface", false, [](Base &b, const std::string &t) { b.ay->setInterfaceType(t); }},
        {"map_variables.id", false, [](Base &b, const std::string &t) { Variable::setEquivalenceMappingId(b.ax, b.bx, t); }},
        {"connection.id", false, [](Base &b, const std::string &t) { Variable::setEquivalenceConnectionId(b.ax, b.bx, t); }},
        {"import.href(component)", false, [](Base &b, const std::string &t) { b.isc->setUrl(t); }},
        {"import.href(units)", false, [](Base &b, const std::string &t) { b.isu->setUrl(t); }},
        {"import.id", false, [](Base &b, const std::string &t) { b.isc->setId(t); }},
        {"import-component.name", false, [](Base &b, const std::string &t) { b.ci->setName(t); }},
        {"import-component.component_ref", false, [](Base &b, const std::string &t) { b.ci->setImportReference(t); }},
        {"import-component.id", false, [](Base &b, const std::string &t) { b.ci->setId(t); }},
        {"import-units.name", false, [](Base &b, const std::string &t) { b.ui->setName(t); }},
        {"import-units.units_ref", false, [](Base &b, const std::string &t) { b.ui->setImportReference(t); }},
        {"import-units.id", false, [](Base &b, const std::string &t) { b.ui->setId(t); }},
        {"reset.id", true, [](Base &b, const std::string &t) { b.reset->setId(t); }},
        {"test_value.id", true, [](Base &b, const std::string &t) { b.reset->setTestValueId(t); }},
        {"reset_value.id", true, [](Base &b, const std::string &t) { b.reset->setResetValueId(t); }},
        {"variable.name(reset variable)", true, [](Base &b, const std::string &t) { b.ay->setName(t); }},
    };
    return P;
}
size_t plainPositions()
{
    size_t n = 0;
    for (auto &p : positions()) if (!p.needsReset) ++n;
    return n;
}
void judgeText(Ctx &c, const std::vector<std::pair<size_t, size_t>> &edits)
{ // edits: (position, menu entry); the second text of a pair gets a suffix so that names and ids stay unique
    bool needsReset = false;
    for (auto &e : edits) needsReset = needsReset || positions()[e.first].needsReset;
    Base b = makeBase(needsReset);
    json what = json::array();
    std::set<std::string> classes;
    for (size_t k = 0; k < edits.size(); ++k) {
        std::string t = MENU[edits[k].second] + (k ? "_2" : "");
        positions()[edits[k].first].set(b, t);
        what.push_back({{"position", positions()[edits[k].first].name}, {"text", t}});
        if (charClass(t) != "plain") classes.insert(charClass(t));
    }
    std::string cls;
    for (auto &x : classes) cls += (cls.empty() ? "" : "+") + x;
    if (cls.empty()) cls = "plain";
    auto validator = Validator::create();
    validator->validateModel(b.m);
    c.logger(validator, "validator");
    bool accepted = validator->issueCount() == 0;
    ++c.judged;
    static const std::string baseDoc = [] { auto pr = Printer::create(); return pr->printModel(makeBase(true).m); }();
    g_neighbourDocs = {baseDoc};
    auto rt = roundTrip(c, b.m, accepted, "c02:text", ":" + cls, what);
    c.outcome(std::string(accepted ? "accepted " : "refused ") + cls + (rt.printedEmpty ? " print-empty" : rt.contentSame ? " same" : " differs"));
}

} // namespace

int main(int argc, char **argv)
{
    std::vector<Family> fams;
    ms::HParams ha; ha.kmax = 2; ha.smax = 3;
    ms::HParams hq; hq.kmax = 3; hq.smax = 2; hq.kFull = 2; hq.sSmall = 2; hq.perms = true;
    ms::HParams h3; h3.kmax = 3; h3.smax = 3;
    ms::HParams ht; ht.kmax = 4; ht.smax = 3; ht.kFull = 3; ht.sSmall = 2; ht.perms = true;
    // h-a: <= 2 components, every subset of <= 3 admissible connections (the sanitizer sub-family)
    fams.push_back(specFamily("h-a", [=] { return ms::familyH("h-a", ha); }));
    // quick: forests on <= 3 components, every subset of <= 2 admissible connections (all listing orders)
    fams.push_back(specFamily("h-q", [=] { return ms::familyH("h-q", hq); }));
    // thorough: <= 3 components with every subset of <= 3; 4 components (125 forests) with every subset of <= 2
    fams.push_back(specFamily("h-t3", [=] { return ms::familyH("h-t3", h3); }));
    fams.push_back(specFamily("h-t4", [=] { return ms::familyH("h-t4", ht); }));
    fams.push_back(specFamily("v", [] { return ms::familyV("v"); }));
    fams.push_back(specFamily("u-q", [] { return ms::familyU("u-q", false); }));
    fams.push_back(specFamily("u-t", [] { return ms::familyU("u-t", true); }));
    fams.push_back(specFamily("r-q", [] { return ms::familyR("r-q", false); }));
    fams.push_back(specFamily("r-t", [] { return ms::familyR("r-t", true); }));
    fams.push_back(specFamily("i-q", [] { return ms::familyI("i-q", false); }));
    fams.push_back(specFamily("i-t", [] { return ms::familyI("i-t", true); }));
    // imported components at every position of every forest on <= 4 (quick) / 5 (thorough) components
    fams.push_back(specFamily("ip-q", [] { return ms::familyIP("ip-q", 4); }));
    fams.push_back(specFamily("ip-t", [] { return ms::familyIP("ip-t", 5); }));
    fams.push_back(specFamily("m", [] { return ms::familyM("m"); }));
    const size_t NP = positions().size(), NM = MENU.size(), NPP = plainPositions();
    fams.push_back({"text-1", [=] { return uint64_t(NP * NM); },
                    [=](uint64_t i, Ctx &c) { judgeText(c, {{size_t(i / NM), size_t(i % NM)}}); },
                    [=](uint64_t i) { return json{{"position", positions()[size_t(i / NM)].name}, {"text", MENU[size_t(i % NM)]}}; }});
    // all unordered pairs of distinct reset-free positions x all ordered pairs of texts
    auto pairAt = [=](uint64_t i) {
        uint64_t t = i % (NM * NM), p = i / (NM * NM);
        size_t a = 0;
        while (p >= NPP - 1 - a) { p -= NPP - 1 - a; ++a; }
        size_t b2 = a + 1 + size_t(p);
        return std::vector<std::pair<size_t, size_t>>{{a, size_t(t / NM)}, {b2, size_t(t % NM)}};
    };
    fams.push_back({"text-2", [=] { return uint64_t(NPP * (NPP - 1) / 2 * NM * NM); },
                    [=](uint64_t i, Ctx &c) { judgeText(c, pairAt(i)); },
                    [=](uint64_t i) { auto e = pairAt(i); return json{{"positions", {positions()[e[0].first].name, positions()[e[1].first].name}}, {"texts", {MENU[e[0].second], MENU[e[1].second] + "_2"}}}; }});
    return harnessMain(argc, argv, fams);
}
