// Shared machinery for all C++ harnesses: canonical dumps through public getters only,
// Logger-coherence invariants (C15), and the index-addressed family runner that the Python
// supervisor (lib/sup.py) shards, watches for crashes and replays.
#pragma once
#include <libcellml>
#include <nlohmann/json.hpp>
#include <libxml/parser.h>
#include <libxml/tree.h>

#include <algorithm>
#include <any>
#include <cmath>
#include <cstdint>
#include <cstdio>
#include <cstring>
#include <fcntl.h>
#include <functional>
#include <map>
#include <optional>
#include <set>
#include <sstream>
#include <string>
#include <unistd.h>
#include <vector>

#include "anycellmlelement_p.h"
#include "issue_p.h"

namespace vf {
using json = nlohmann::json;
using namespace libcellml;

// ------------------------------------------------------------------ small helpers
inline std::string dbl(double d)
{
    if (std::isnan(d)) return "nan";
    if (std::isinf(d)) return d > 0 ? "inf" : "-inf";
    char b[64];
    snprintf(b, sizeof b, "%.15g", d);
    return b;
}
inline std::string q(const std::string &s)
{ // quote for S-expression dumps
    std::string r = "\"";
    for (char c : s) {
        if (c == '"' || c == '\\') r += '\\';
        r += c;
    }
    return r + "\"";
}
// JSON strings must be valid UTF-8; hostile inputs are not. Replace bad bytes.
inline std::string safe(const std::string &s, size_t max = 4000)
{
    std::string r;
    for (size_t i = 0; i < s.size() && r.size() < max; ++i) {
        unsigned char c = s[i];
        if (c < 0x80) {
            r += (c < 0x20 && c != '\n' && c != '\t') ? '?' : char(c);
        } else {
            int n = (c >= 0xF0) ? 3 : (c >= 0xE0) ? 2 : (c >= 0xC0) ? 1 : -1;
            bool ok = n > 0 && i + n < s.size();
            if (ok) for (int k = 1; k <= n; ++k) if (i + k >= s.size() || (static_cast<unsigned char>(s[i + k]) & 0xC0) != 0x80) ok = false;
            if (ok) { r.append(s, i, n + 1); i += n; } else { char b[8]; snprintf(b, sizeof b, "\\x%02x", c); r += b; }
        }
    }
    if (s.size() > max) r += "...";
    return r;
}

// mixed-radix decoding of a case index
struct Radix
{
    uint64_t v;
    explicit Radix(uint64_t i) : v(i) {}
    uint64_t take(uint64_t base) { uint64_t r = v % base; v /= base; return r; }
};

// ------------------------------------------------------------------ independent XML canonicaliser (math strings)
// Uses libxml2 directly (not libcellml's wrappers): element = {ns}local, attributes sorted, text trimmed,
// whitespace-only text dropped. Non-XML input is returned trimmed with a marker so that it still compares.
inline void canonXmlNode(xmlNodePtr n, std::string &out)
{
    for (; n; n = n->next) {
        if (n->type == XML_ELEMENT_NODE) {
            out += "<";
            if (n->ns && n->ns->href) { out += "{"; out += (const char *)n->ns->href; out += "}"; }
            out += (const char *)n->name;
            std::vector<std::string> at;
            for (xmlAttrPtr a = n->properties; a; a = a->next) {
                std::string s;
                if (a->ns && a->ns->href) { s += "{"; s += (const char *)a->ns->href; s += "}"; }
                s += (const char *)a->name;
                xmlChar *v = xmlNodeGetContent((xmlNodePtr)a);
                s += "=";
                s += q(v ? (const char *)v : "");
                if (v) xmlFree(v);
                at.push_back(s);
            }
            std::sort(at.begin(), at.end());
            for (auto &s : at) { out += " "; out += s; }
            out += ">";
            canonXmlNode(n->children, out);
            out += "</>";
        } else if (n->type == XML_TEXT_NODE || n->type == XML_CDATA_SECTION_NODE) {
            std::string t = n->content ? (const char *)n->content : "";
            size_t b = t.find_first_not_of(" \t\r\n"), e = t.find_last_not_of(" \t\r\n");
            if (b != std::string::npos) { out += "T("; out += t.substr(b, e - b + 1); out += ")"; }
        }
    }
}
inline std::string canonXml(const std::string &text)
{
    if (text.find_first_not_of(" \t\r\n") == std::string::npos) return "";
    std::string wrapped = "<vfwrap>" + text + "</vfwrap>"; // math strings may hold several <math> roots
    xmlDocPtr d = xmlReadMemory(wrapped.data(), int(wrapped.size()), "m.xml", nullptr, XML_PARSE_NOERROR | XML_PARSE_NOWARNING | XML_PARSE_NONET);
    std::string out;
    if (!d) {
        size_t b = text.find_first_not_of(" \t\r\n"), e = text.find_last_not_of(" \t\r\n");
        return "RAW(" + text.substr(b, e - b + 1) + ")";
    }
    xmlNodePtr r = xmlDocGetRootElement(d);
    if (r) canonXmlNode(r->children, out);
    xmlFreeDoc(d);
    return out;
}

// ------------------------------------------------------------------ canonical content dump
struct CanonOpt
{
    bool ids = true;           // entity ids, encapsulation ids, unit ids, test/reset value ids
    bool equivalences = true;  // connections with mapping / connection ids
    bool sort = true;          // child order insignificant
    bool math = true;
};

inline std::string canonImport(const ImportedEntityPtr &e, const CanonOpt &o)
{
    if (!e->isImport()) return "";
    auto is = e->importSource();
    std::string s = "(import " + q(is ? is->url() : "<null>") + " " + q(e->importReference());
    if (o.ids && is) s += " id=" + q(is->id());
    return s + ")";
}
inline std::string canonUnits(const UnitsPtr &u, const CanonOpt &o)
{
    std::string s = "(units " + q(u->name());
    if (o.ids) s += " id=" + q(u->id());
    s += canonImport(u, o);
    std::vector<std::string> ch;
    for (size_t i = 0; i < u->unitCount(); ++i) {
        std::string c = "(unit " + q(u->unitAttributeReference(i)) + " p=" + q(u->unitAttributePrefix(i)) + " e=" + dbl(u->unitAttributeExponent(i)) + " m=" + dbl(u->unitAttributeMultiplier(i));
        if (o.ids) c += " id=" + q(u->unitId(i));
        ch.push_back(c + ")");
    }
    if (o.sort) std::sort(ch.begin(), ch.end());
    for (auto &c : ch) s += c;
    return s + ")";
}
inline std::string canonVariable(const VariablePtr &v, const CanonOpt &o)
{
    std::string s = "(var " + q(v->name());
    if (o.ids) s += " id=" + q(v->id());
    auto u = v->units();
    s += " u=" + (u ? q(u->name()) : std::string("<none>"));
    s += " iv=" + q(v->initialValue()) + " if=" + q(v->interfaceType());
    return s + ")";
}
inline std::string varRef(const VariablePtr &v)
{
    if (!v) return "<null>";
    std::string s = v->name();
    auto p = v->parent();
    int guard = 0;
    while (p && guard++ < 64) {
        auto ne = std::dynamic_pointer_cast<NamedEntity>(p);
        s = (ne ? ne->name() : std::string("?")) + "/" + s;
        p = p->parent();
    }
    if (!v->parent()) s = "<orphan>/" + s;
    return s;
}
inline std::string canonReset(const ResetPtr &r, const CanonOpt &o)
{
    std::string s = "(reset";
    if (o.ids) s += " id=" + q(r->id());
    s += r->isOrderSet() ? " order=" + std::to_string(r->order()) : std::string(" order=<unset>");
    s += " v=" + (r->variable() ? q(r->variable()->name()) : std::string("<null>"));
    s += " tv=" + (r->testVariable() ? q(r->testVariable()->name()) : std::string("<null>"));
    if (o.math) s += " test=[" + canonXml(r->testValue()) + "] value=[" + canonXml(r->resetValue()) + "]";
    if (o.ids) s += " tid=" + q(r->testValueId()) + " rid=" + q(r->resetValueId());
    return s + ")";
}
inline std::string canonComponent(const ComponentPtr &c, const CanonOpt &o, int depth = 0)
{
    std::string s = "(component " + q(c->name());
    if (o.ids) s += " id=" + q(c->id()) + " eid=" + q(c->encapsulationId());
    s += canonImport(c, o);
    if (o.math) s += " math=[" + canonXml(c->math()) + "]";
    std::vector<std::string> vs, rs, cs;
    for (size_t i = 0; i < c->variableCount(); ++i) vs.push_back(canonVariable(c->variable(i), o));
    for (size_t i = 0; i < c->resetCount(); ++i) rs.push_back(canonReset(c->reset(i), o));
    if (depth < 64) for (size_t i = 0; i < c->componentCount(); ++i) cs.push_back(canonComponent(c->component(i), o, depth + 1));
    if (o.sort) { std::sort(vs.begin(), vs.end()); std::sort(rs.begin(), rs.end()); std::sort(cs.begin(), cs.end()); }
    for (auto &x : vs) s += x;
    for (auto &x : rs) s += x;
    for (auto &x : cs) s += x;
    return s + ")";
}
inline void collectVariables(const ComponentPtr &c, std::vector<VariablePtr> &out, int depth = 0)
{
    for (size_t i = 0; i < c->variableCount(); ++i) out.push_back(c->variable(i));
    if (depth < 64) for (size_t i = 0; i < c->componentCount(); ++i) collectVariables(c->component(i), out, depth + 1);
}
inline std::vector<VariablePtr> allVariables(const ModelPtr &m)
{
    std::vector<VariablePtr> v;
    for (size_t i = 0; i < m->componentCount(); ++i) collectVariables(m->component(i), v);
    return v;
}
inline std::string canonEquivalences(const ModelPtr &m, const CanonOpt &o)
{
    std::set<std::string> pairs;
    for (auto &v : allVariables(m)) {
        for (size_t i = 0; i < v->equivalentVariableCount(); ++i) {
            auto w = v->equivalentVariable(i);
            std::string a = varRef(v), b = varRef(w);
            std::string e;
            if (o.ids && w) e = " mid=" + q(Variable::equivalenceMappingId(v, w)) + " cid=" + q(Variable::equivalenceConnectionId(v, w));
            // direction-tagged so that an asymmetric link shows up as a single half-edge
            pairs.insert(a < b ? "(eq " + q(a) + " " + q(b) + e + " fwd)" : "(eq " + q(b) + " " + q(a) + e + " bwd)");
        }
    }
    std::string s;
    for (auto &p : pairs) s += p;
    return s;
}
inline std::string canonModel(const ModelPtr &m, const CanonOpt &o = CanonOpt())
{
    if (!m) return "<null-model>";
    std::string s = "(model " + q(m->name());
    if (o.ids) s += " id=" + q(m->id()) + " eid=" + q(m->encapsulationId());
    std::vector<std::string> us, cs;
    for (size_t i = 0; i < m->unitsCount(); ++i) us.push_back(canonUnits(m->units(i), o));
    for (size_t i = 0; i < m->componentCount(); ++i) cs.push_back(canonComponent(m->component(i), o));
    if (o.sort) { std::sort(us.begin(), us.end()); std::sort(cs.begin(), cs.end()); }
    for (auto &x : us) s += x;
    for (auto &x : cs) s += x;
    if (o.equivalences) s += canonEquivalences(m, o);
    return s + ")";
}

// ------------------------------------------------------------------ issues
inline const char *levelName(Issue::Level l)
{
    switch (l) {
    case Issue::Level::ERROR: return "ERROR";
    case Issue::Level::WARNING: return "WARNING";
    case Issue::Level::MESSAGE: return "MESSAGE";
    }
    return "?";
}
inline json issuesJson(const LoggerPtr &l, size_t max = 50)
{
    json a = json::array();
    for (size_t i = 0; i < l->issueCount() && i < max; ++i) {
        auto is = l->issue(i);
        a.push_back({{"level", levelName(is->level())}, {"rule", int(is->referenceRule())}, {"desc", safe(is->description(), 300)}});
    }
    return a;
}
inline bool hasRule(const LoggerPtr &l, Issue::ReferenceRule r, Issue::Level lv = Issue::Level::ERROR)
{
    for (size_t i = 0; i < l->issueCount(); ++i) if (l->issue(i)->referenceRule() == r && l->issue(i)->level() == lv) return true;
    return false;
}

// C15 Logger coherence: returns a description of the first incoherence, or nothing.
inline std::optional<std::string> itemIncoherence(const IssuePtr &is)
{
    auto it = is->item();
    if (!it) return std::string("issue item() is null");
    auto t = it->type();
    int nonNull = 0;
    bool comp = it->component() != nullptr, imp = it->importSource() != nullptr, mod = it->model() != nullptr, res = it->reset() != nullptr,
         uni = it->units() != nullptr, ui = it->unitsItem() != nullptr, var = it->variable() != nullptr, vp = it->variablePair() != nullptr;
    nonNull = comp + imp + mod + res + uni + ui + var + vp;
    if (nonNull > 1) return std::string("more than one typed getter returns non-null");
    // exactly the getter designated for type() may return an object, and then it is the stored object
    {
        const std::any &a = it->mPimpl->mItem;
        const char *wrong = nullptr;
        bool same = true;
        auto only = [&](bool designated, bool got, const char *name) { if (got && !designated) wrong = name; };
        bool dComp = t == CellmlElementType::COMPONENT || t == CellmlElementType::COMPONENT_REF;
        bool dPair = t == CellmlElementType::CONNECTION || t == CellmlElementType::MAP_VARIABLES;
        bool dModel = t == CellmlElementType::ENCAPSULATION || t == CellmlElementType::MODEL;
        bool dReset = t == CellmlElementType::RESET || t == CellmlElementType::RESET_VALUE || t == CellmlElementType::TEST_VALUE;
        only(dComp, comp, "component()");
        only(dPair, vp, "variablePair()");
        only(dModel, mod, "model()");
        only(t == CellmlElementType::IMPORT, imp, "importSource()");
        only(dReset, res, "reset()");
        only(t == CellmlElementType::UNIT, ui, "unitsItem()");
        only(t == CellmlElementType::UNITS, uni, "units()");
        only(t == CellmlElementType::VARIABLE, var, "variable()");
        if (wrong) return std::string(wrong) + " returns an object although the item's type is " + std::to_string(int(t));
        if (dComp && a.type() == typeid(ComponentPtr)) same = std::any_cast<ComponentPtr>(a) == it->component();
        else if (dPair && a.type() == typeid(VariablePairPtr)) same = std::any_cast<VariablePairPtr>(a) == it->variablePair();
        else if (dModel && a.type() == typeid(ModelPtr)) same = std::any_cast<ModelPtr>(a) == it->model();
        else if (t == CellmlElementType::IMPORT && a.type() == typeid(ImportSourcePtr)) same = std::any_cast<ImportSourcePtr>(a) == it->importSource();
        else if (dReset && a.type() == typeid(ResetPtr)) same = std::any_cast<ResetPtr>(a) == it->reset();
        else if (t == CellmlElementType::UNIT && a.type() == typeid(UnitsItemPtr)) same = std::any_cast<UnitsItemPtr>(a) == it->unitsItem();
        else if (t == CellmlElementType::UNITS && a.type() == typeid(UnitsPtr)) same = std::any_cast<UnitsPtr>(a) == it->units();
        else if (t == CellmlElementType::VARIABLE && a.type() == typeid(VariablePtr)) same = std::any_cast<VariablePtr>(a) == it->variable();
        if (!same) return std::string("the designated typed getter does not return the stored object for type ") + std::to_string(int(t));
    }
    const std::type_info &ti = it->mPimpl->mItem.type();
    auto is_t = [&](const std::type_info &x) { return ti == x; };
    bool nullany = !it->mPimpl->mItem.has_value() || is_t(typeid(std::nullptr_t));
    switch (t) {
    case CellmlElementType::COMPONENT:
    case CellmlElementType::COMPONENT_REF:
    case CellmlElementType::MATH:
        if (!is_t(typeid(ComponentPtr))) return std::string("stored object is not a Component for type ") + std::to_string(int(t));
        if (t != CellmlElementType::MATH && nonNull == 1 && !comp) return std::string("wrong getter non-null for component type");
        break;
    case CellmlElementType::CONNECTION:
    case CellmlElementType::MAP_VARIABLES:
        if (!is_t(typeid(VariablePairPtr))) return std::string("stored object is not a VariablePair for type ") + std::to_string(int(t));
        break;
    case CellmlElementType::ENCAPSULATION:
    case CellmlElementType::MODEL:
        if (!is_t(typeid(ModelPtr))) return std::string("stored object is not a Model for type ") + std::to_string(int(t));
        break;
    case CellmlElementType::IMPORT:
        if (!is_t(typeid(ImportSourcePtr))) return std::string("stored object is not an ImportSource for IMPORT");
        break;
    case CellmlElementType::RESET:
    case CellmlElementType::RESET_VALUE:
    case CellmlElementType::TEST_VALUE:
        if (!is_t(typeid(ResetPtr))) return std::string("stored object is not a Reset for type ") + std::to_string(int(t));
        break;
    case CellmlElementType::UNIT:
        if (!is_t(typeid(UnitsItemPtr))) return std::string("stored object is not a UnitsItem for UNIT");
        break;
    case CellmlElementType::UNITS:
        if (!is_t(typeid(UnitsPtr))) return std::string("stored object is not a Units for UNITS");
        break;
    case CellmlElementType::VARIABLE:
        if (!is_t(typeid(VariablePtr))) return std::string("stored object is not a Variable for VARIABLE");
        break;
    case CellmlElementType::UNDEFINED:
        if (!nullany) return std::string("UNDEFINED item stores an object");
        if (nonNull) return std::string("UNDEFINED item returns an object");
        break;
    default:
        return std::string("element type outside the enumeration: ") + std::to_string(int(t));
    }
    return std::nullopt;
}
inline std::optional<std::string> loggerIncoherence(const LoggerPtr &l)
{
    size_t n = l->issueCount(), ne = l->errorCount(), nw = l->warningCount(), nm = l->messageCount();
    if (n != ne + nw + nm) return "issueCount " + std::to_string(n) + " != errors+warnings+messages " + std::to_string(ne + nw + nm);
    if (l->issue(n) || l->error(ne) || l->warning(nw) || l->message(nm)) return std::string("index==count accessor returned non-null");
    if (l->issue(n + 1) || l->error(ne + 1) || l->warning(nw + 1) || l->message(nm + 1)) return std::string("index==count+1 accessor returned non-null");
    if (l->issue(SIZE_MAX) || l->error(SIZE_MAX) || l->warning(SIZE_MAX) || l->message(SIZE_MAX)) return std::string("index==SIZE_MAX accessor returned non-null");
    size_t ie = 0, iw = 0, im = 0;
    for (size_t i = 0; i < n; ++i) {
        auto is = l->issue(i);
        if (!is) return "issue(" + std::to_string(i) + ") is null";
        if (is->description().empty()) return "issue(" + std::to_string(i) + ") has an empty description";
        IssuePtr byLevel;
        switch (is->level()) {
        case Issue::Level::ERROR: byLevel = l->error(ie++); break;
        case Issue::Level::WARNING: byLevel = l->warning(iw++); break;
        case Issue::Level::MESSAGE: byLevel = l->message(im++); break;
        default: return "issue(" + std::to_string(i) + ") level outside enumeration";
        }
        if (byLevel != is) return "per-level accessor does not enumerate issue(" + std::to_string(i) + ") [" + levelName(is->level()) + "] in order";
        if (int(is->referenceRule()) < 0 || int(is->referenceRule()) > int(Issue::ReferenceRule::UNSPECIFIED)) return "issue(" + std::to_string(i) + ") reference rule outside the enumeration: " + std::to_string(int(is->referenceRule()));
        try {
            (void)is->referenceHeading();
            (void)is->url();
        } catch (const std::exception &e) {
            return "referenceHeading/url threw for rule " + std::to_string(int(is->referenceRule())) + ": " + e.what();
        }
        if (auto x = itemIncoherence(is)) return "issue(" + std::to_string(i) + "): " + *x + " desc=" + safe(is->description(), 120);
    }
    if (ie != ne || iw != nw || im != nm) return std::string("per-level counts disagree with levels in issue(i)");
    return std::nullopt;
}

// ------------------------------------------------------------------ family runner
inline std::map<std::string, std::string> g_options; // --key=value arguments

struct Ctx
{
    uint64_t index = 0;
    std::string family;
    bool verbose = false;
    uint64_t evaluations = 0, judged = 0, violations = 0;
    std::map<std::string, uint64_t> outcomes; // outcome class -> count (vacuity evidence)
    std::map<std::string, uint64_t> counters;
    void outcome(const std::string &k) { ++outcomes[k]; }
    void count(const std::string &k, uint64_t n = 1) { counters[k] += n; }
    // sig: stable class of the failure (used for known-finding matching); detail: free JSON
    void violation(const std::string &sig, json detail = json::object())
    {
        ++violations;
        json j = {{"v", 1}, {"family", family}, {"i", index}, {"sig", sig}, {"detail", detail}};
        std::string s = j.dump(-1, ' ', false, json::error_handler_t::replace);
        fputs(s.c_str(), stdout);
        fputc('\n', stdout);
        fflush(stdout);
    }
    // C15 hook: every harness calls this after each service call it makes
    void logger(const LoggerPtr &l, const char *service)
    {
        count("logger_checks");
        if (auto x = loggerIncoherence(l)) violation(std::string("C15:logger-incoherent:") + service, {{"what", *x}});
    }
};

struct Family
{
    std::string name;
    std::function<uint64_t()> count;
    std::function<void(uint64_t, Ctx &)> run;
    std::function<json(uint64_t)> show;
};

inline int harnessMain(int argc, char **argv, const std::vector<Family> &families)
{
    auto usage = [&]() {
        fprintf(stderr, "usage: %s list | count <family> | show <family> <i> | run <family> <lo> <hi> [progressfile] [-v]\n", argv[0]);
        return 2;
    };
    if (argc < 2) return usage();
    std::string cmd = argv[1];
    if (cmd == "list") {
        json a = json::array();
        for (auto &f : families) a.push_back({{"family", f.name}, {"count", f.count()}});
        puts(a.dump().c_str());
        return 0;
    }
    if (argc < 3) return usage();
    const Family *f = nullptr;
    for (auto &x : families) if (x.name == argv[2]) f = &x;
    if (!f) { fprintf(stderr, "unknown family %s\n", argv[2]); return 2; }
    if (cmd == "count") { printf("%llu\n", (unsigned long long)f->count()); return 0; }
    if (cmd == "show") {
        if (argc < 4) return usage();
        puts(f->show(strtoull(argv[3], nullptr, 10)).dump(-1, ' ', false, json::error_handler_t::replace).c_str());
        return 0;
    }
    if (cmd == "run") {
        if (argc < 5) return usage();
        uint64_t lo = strtoull(argv[3], nullptr, 10), hi = strtoull(argv[4], nullptr, 10);
        int pfd = -1;
        Ctx ctx;
        ctx.family = f->name;
        for (int a = 5; a < argc; ++a) {
            std::string arg = argv[a];
            if (arg == "-v") ctx.verbose = true;
            else if (arg.rfind("--", 0) == 0) {
                size_t eq = arg.find('=');
                g_options[arg.substr(2, eq == std::string::npos ? std::string::npos : eq - 2)] = eq == std::string::npos ? "1" : arg.substr(eq + 1);
            } else pfd = open(argv[a], O_WRONLY | O_CREAT, 0644);
        }
        uint64_t n = f->count();
        if (hi > n) hi = n;
        for (uint64_t i = lo; i < hi; ++i) {
            if (pfd >= 0) { if (pwrite(pfd, &i, sizeof i, 0) != sizeof i) {} }
            ctx.index = i;
            ++ctx.evaluations;
            f->run(i, ctx);
        }
        json st = {{"stats", 1}, {"family", f->name}, {"lo", lo}, {"hi", hi}, {"evaluations", ctx.evaluations}, {"judged", ctx.judged},
                   {"violations", ctx.violations}, {"outcomes", ctx.outcomes}, {"counters", ctx.counters}};
        puts(st.dump(-1, ' ', false, json::error_handler_t::replace).c_str());
        fflush(stdout);
        if (pfd >= 0) { uint64_t done = UINT64_MAX; if (pwrite(pfd, &done, sizeof done, 0) != sizeof done) {} close(pfd); }
        return 0;
    }
    return usage();
}

} // namespace vf
