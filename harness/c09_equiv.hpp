// C09 — equivalence machines. Variables have distinct names (the look-alike defect of the containers is the business of
// the container machines). Three alphabets over the same world:
//   CORE : addEquivalence(a,b) / removeEquivalence(a,b) for all ordered pairs incl. a==a, removeAllEquivalences
//   IDS  : CORE + 4-argument addEquivalence, set/remove mapping and connection ids
//   LIFE : add/remove (a<b), removeAll, remove a variable from / put it back into its component, drop the harness's
//          reference to a variable / component / the model
// Step oracle: an undirected edge set with per-variable insertion order. Ids are judged by symmetry only (the statement
// says nothing else about them); the hidden id maps are part of the state KEY (read through the pimpl) so that states
// differing only in stale entries are not merged.
#pragma once
#include "c09_flat.hpp"
#include "variable_p.h"

namespace c09 {

enum EqMode { EQ_CORE, EQ_IDS, EQ_LIFE };

struct EState
{
    std::vector<std::vector<int>> adj; // per variable: equivalent variables in order
    std::vector<char> inComp, heldV, aliveV, heldC, aliveC;
    char heldM = 1;
    bool operator==(const EState &o) const { return adj == o.adj && inComp == o.inComp && heldV == o.heldV && aliveV == o.aliveV && heldC == o.heldC && aliveC == o.aliveC && heldM == o.heldM; }
    std::string str() const
    {
        std::string s;
        for (size_t v = 0; v < adj.size(); ++v) {
            s += std::string(aliveV[v] ? (heldV[v] ? "" : "~") : "x") + "v" + std::to_string(v) + (inComp[v] ? "@" : "") + "[";
            for (size_t i = 0; i < adj[v].size(); ++i) s += (i ? "," : "") + std::to_string(adj[v][i]);
            s += "] ";
        }
        s += "comps(";
        for (size_t c = 0; c < heldC.size(); ++c) s += aliveC[c] ? (heldC[c] ? "H" : "o") : "x";
        s += std::string(") model(") + (heldM ? "H" : "x") + ")";
        return s;
    }
};

template<int NV, EqMode MODE>
struct EqWorld
{
    // CORE/LIFE: c0{v0,v1} c1{v2} c2{v3}. IDS: one component per variable, because a connection id belongs to a PAIR OF
    // COMPONENTS (Variable::equivalenceConnectionId reads it through createConnectionMap, a map ordered by object address:
    // with two variables of one component connected to the same other component under different ids the public getter
    // is address-dependent, which would make the state key non-deterministic; that is C12's subject, not C09's).
    static constexpr int NC = MODE == EQ_IDS ? NV : (NV == 4 ? 3 : 2);
    static int home(int v) { return MODE == EQ_IDS ? v : (v < 2 ? 0 : v - 1); }
    Slot<Model> model;
    std::vector<Slot<Component>> comp;
    std::vector<Slot<Variable>> var;
    VariablePtr foreign; // never connected, never added to a component
    EState ref;
    bool dead = false;
    std::string deadWhy;

    enum Kind { ADD2, ADD4, REMOVE, REMOVE_ALL, SET_MAP, SET_CONN, RM_MAP, RM_CONN, RM_VAR, ADD_VAR, DROP_V, DROP_C, DROP_M, BAD_ADD, BAD_REMOVE, BAD_IDS, KINDS };
    static const char *kindName(int k)
    {
        static const char *K[] = {"addEquivalence(v1,v2)", "addEquivalence(v1,v2,mappingId,connectionId)", "removeEquivalence", "removeAllEquivalences", "setEquivalenceMappingId", "setEquivalenceConnectionId",
                                  "removeEquivalenceMappingId", "removeEquivalenceConnectionId", "removeVariable(ptr)", "addVariable", "dropVariableRef", "dropComponentRef", "dropModelRef",
                                  "addEquivalence(bad-argument)", "removeEquivalence(bad-argument)", "equivalence-id-setters(bad-argument)"};
        return K[k];
    }
    struct Op { Kind k; int a; int b; };
    static const std::vector<Op> &ops()
    {
        static std::vector<Op> o;
        if (o.empty()) {
            bool ordered = MODE != EQ_LIFE;
            for (int a = 0; a < NV; ++a) for (int b = 0; b < NV; ++b) if (ordered || a < b) o.push_back({ADD2, a, b});
            for (int a = 0; a < NV; ++a) for (int b = 0; b < NV; ++b) if (ordered || a < b) o.push_back({REMOVE, a, b});
            for (int a = 0; a < NV; ++a) o.push_back({REMOVE_ALL, a, 0});
            if (MODE == EQ_IDS) {
                for (int a = 0; a < NV; ++a) for (int b = 0; b < NV; ++b) if (a != b) o.push_back({ADD4, a, b});
                for (int k : {SET_MAP, SET_CONN, RM_MAP, RM_CONN}) for (int a = 0; a < NV; ++a) for (int b = a + 1; b < NV; ++b) o.push_back({Kind(k), a, b});
            }
            // mutators with a null / never-connected partner: must be refused and change nothing (b: 0 null, 1 foreign)
            for (int a = 0; a < NV; ++a) {
                o.push_back({BAD_ADD, a, 0});
                for (int b = 0; b < 2; ++b) o.push_back({BAD_REMOVE, a, b});
                if (MODE == EQ_IDS) for (int b = 0; b < 2; ++b) o.push_back({BAD_IDS, a, b});
            }
            if (MODE == EQ_LIFE) {
                for (int a = 0; a < NV; ++a) { o.push_back({RM_VAR, a, 0}); o.push_back({ADD_VAR, a, 0}); o.push_back({DROP_V, a, 0}); }
                for (int c = 0; c < NC; ++c) o.push_back({DROP_C, c, 0});
                o.push_back({DROP_M, 0, 0});
            }
        }
        return o;
    }
    static int opCount() { return int(ops().size()); }
    static std::string opName(int i)
    {
        const Op &o = ops()[i];
        auto V = [](int v) { return "v" + std::to_string(v); };
        switch (o.k) {
        case ADD2: return "Variable::addEquivalence(" + V(o.a) + ", " + V(o.b) + ")";
        case ADD4: return "Variable::addEquivalence(" + V(o.a) + ", " + V(o.b) + ", \"m1\", \"k1\")";
        case REMOVE: return "Variable::removeEquivalence(" + V(o.a) + ", " + V(o.b) + ")";
        case REMOVE_ALL: return V(o.a) + ".removeAllEquivalences()";
        case SET_MAP: return "Variable::setEquivalenceMappingId(" + V(o.a) + ", " + V(o.b) + ", \"m1\")";
        case SET_CONN: return "Variable::setEquivalenceConnectionId(" + V(o.a) + ", " + V(o.b) + ", \"k1\")";
        case RM_MAP: return "Variable::removeEquivalenceMappingId(" + V(o.a) + ", " + V(o.b) + ")";
        case RM_CONN: return "Variable::removeEquivalenceConnectionId(" + V(o.a) + ", " + V(o.b) + ")";
        case RM_VAR: return "c" + std::to_string(home(o.a)) + ".removeVariable(" + V(o.a) + ")";
        case ADD_VAR: return "c" + std::to_string(home(o.a)) + ".addVariable(" + V(o.a) + ")";
        case DROP_V: return "drop harness reference to " + V(o.a);
        case DROP_C: return "drop harness reference to c" + std::to_string(o.a);
        case DROP_M: return "drop harness reference to the model";
        case BAD_ADD: return "Variable::addEquivalence(" + V(o.a) + ", nullptr) and (nullptr, " + V(o.a) + ")";
        case BAD_REMOVE: return std::string("Variable::removeEquivalence(") + V(o.a) + ", " + (o.b ? "foreign" : "nullptr") + ") and reversed";
        case BAD_IDS: return std::string("Variable::set/removeEquivalenceMappingId/ConnectionId(") + V(o.a) + ", " + (o.b ? "foreign" : "nullptr") + ") and reversed";
        default: return "?";
        }
    }
    EqWorld()
    {
        model.init(Model::create("m"));
        comp.resize(NC);
        var.resize(NV);
        for (int c = 0; c < NC; ++c) { auto k = Component::create("c" + std::to_string(c)); model.held->addComponent(k); comp[c].init(k); }
        static const char *N[] = {"a", "b", "c", "d"};
        for (int v = 0; v < NV; ++v) { auto x = Variable::create(N[v]); comp[home(v)].held->addVariable(x); var[v].init(x); }
        foreign = Variable::create("zz");
        ref.adj.assign(NV, {});
        ref.inComp.assign(NV, 1);
        ref.heldV.assign(NV, 1);
        ref.aliveV.assign(NV, 1);
        ref.heldC.assign(NC, 1);
        ref.aliveC.assign(NC, 1);
    }
    int idxOf(const VariablePtr &p) const
    {
        if (!p) return -1;
        for (int v = 0; v < NV; ++v) if (var[v].alive() && var[v].raw == p.get()) return v;
        return -2;
    }
    EState observe(std::vector<Viol> *inv = nullptr) const
    {
        EState s;
        s.adj.assign(NV, {});
        s.inComp.assign(NV, 0);
        s.heldV.assign(NV, 0);
        s.aliveV.assign(NV, 0);
        s.heldC.assign(NC, 0);
        s.aliveC.assign(NC, 0);
        s.heldM = model.held != nullptr;
        for (int c = 0; c < NC; ++c) { s.heldC[c] = comp[c].held != nullptr; s.aliveC[c] = comp[c].alive(); }
        for (int v = 0; v < NV; ++v) {
            s.heldV[v] = var[v].held != nullptr;
            auto p = var[v].peek();
            s.aliveV[v] = p != nullptr;
            if (!p) continue;
            auto par = p->parent();
            s.inComp[v] = par && comp[home(v)].alive() && par.get() == static_cast<ParentedEntity *>(comp[home(v)].raw);
            size_t n = p->equivalentVariableCount();
            for (size_t i = 0; i < n && i < 16; ++i) {
                auto w = p->equivalentVariable(i);
                if (!w && inv) inv->push_back({"equivalences:invariant:equivalentVariable(i)-null-below-count", {{"variable", v}, {"i", i}, {"count", n}}});
                s.adj[v].push_back(idxOf(w));
            }
            if (inv && p->equivalentVariable(n)) inv->push_back({"equivalences:invariant:equivalentVariable(count)-not-null", {{"variable", v}}});
        }
        return s;
    }
    // everything the id getters and the hidden maps say, for the state key
    std::string idDump() const
    {
        std::string s;
        for (int a = 0; a < NV; ++a) for (int b = 0; b < NV; ++b) {
            if (a == b) continue;
            auto p = var[a].peek(), q = var[b].peek();
            if (!p || !q) continue;
            std::string pm = Variable::equivalenceMappingId(p, q), pc = Variable::equivalenceConnectionId(p, q);
            std::string hm = p->pFunc()->equivalentMappingId(q), hc = p->pFunc()->equivalentConnectionId(q);
            if (pm.empty() && pc.empty() && hm.empty() && hc.empty()) continue;
            s += " " + std::to_string(a) + ">" + std::to_string(b) + ":" + pm + "/" + pc + "|" + hm + "/" + hc;
        }
        return s;
    }
    static bool reachable(const EState &s, int from, int to)
    {
        std::vector<char> seen(s.adj.size(), 0);
        std::vector<int> st = {from};
        seen[from] = 1;
        while (!st.empty()) {
            int x = st.back();
            st.pop_back();
            for (int y : s.adj[x]) if (y >= 0 && !seen[y]) { if (y == to) return true; seen[y] = 1; st.push_back(y); }
        }
        return false;
    }
    // number of expired weak entries each live variable still carries (hidden; part of the key where objects can die)
    std::string expiredDump() const
    {
        std::string s;
        for (int v = 0; v < NV; ++v) {
            auto p = var[v].peek();
            if (!p) continue;
            size_t raw = p->pFunc()->mEquivalentVariables.size(), live = p->equivalentVariableCount();
            if (raw != live) s += " v" + std::to_string(v) + "+" + std::to_string(raw - live) + "expired";
        }
        return s;
    }
    // Every query of the equivalence API on every live variable, argument in {null, never-connected, every live variable}:
    // judged against the observed graph `s` (which the step oracle compares with the reference model).
    void querySweep(const EState &s, std::vector<Viol> &out) const
    {
        auto B = [](bool b) { return std::string(b ? "true" : "false"); };
        for (int v = 0; v < NV; ++v) {
            auto p = var[v].peek();
            if (!p) continue;
            bool hasExpired = p->pFunc()->mEquivalentVariables.size() != p->equivalentVariableCount();
            std::string ctx = hasExpired ? ":receiver-lists-a-destroyed-variable" : "";
            struct Arg { const char *cls; VariablePtr ptr; int idx; };
            std::vector<Arg> args = {{"null", nullptr, -1}, {"never-connected", foreign, -3}};
            for (int k = 0; k < NV; ++k) if (k != v) if (auto q = var[k].peek()) args.push_back({"universe-variable", q, k});
            for (auto &a : args) {
                bool expD = a.idx >= 0 && has(s.adj[v], a.idx), expI = a.idx >= 0 && reachable(s, v, a.idx);
                bool gotD = p->hasEquivalentVariable(a.ptr, false), gotI = p->hasEquivalentVariable(a.ptr, true);
                if (gotD != expD) out.push_back({std::string("equivalences:query:hasEquivalentVariable(direct):") + a.cls + ":answered-" + B(gotD) + ctx, {{"state", s.str()}, {"receiver", v}, {"argument", a.idx}}});
                if (gotI != expI) out.push_back({std::string("equivalences:query:hasEquivalentVariable(indirect):") + a.cls + ":answered-" + B(gotI) + ctx, {{"state", s.str()}, {"receiver", v}, {"argument", a.idx}}});
                if (a.idx < 0) { // no equivalence exists with null / a never-connected variable: every id getter answers ""
                    std::string ids = Variable::equivalenceMappingId(p, a.ptr) + Variable::equivalenceMappingId(a.ptr, p) + Variable::equivalenceConnectionId(p, a.ptr) + Variable::equivalenceConnectionId(a.ptr, p);
                    if (!ids.empty()) out.push_back({std::string("equivalences:query:equivalenceMappingId/ConnectionId:") + a.cls + ":answered-non-empty" + ctx, {{"state", s.str()}, {"receiver", v}, {"ids", ids}}});
                }
            }
            if (p->equivalentVariable(SIZE_MAX)) out.push_back({"equivalences:query:equivalentVariable(SIZE_MAX)-not-null" + ctx, {{"state", s.str()}, {"receiver", v}}});
        }
    }
    void checkInvariants(const EState &s, std::vector<Viol> &out) const
    {
        for (int a = 0; a < NV; ++a) {
            for (int b : s.adj[a]) {
                if (b == -2) { out.push_back({"equivalences:invariant:equivalent-variable-outside-universe", {{"state", s.str()}}}); continue; }
                if (b < 0) continue; // reported by observe()
                if (std::find(s.adj[b].begin(), s.adj[b].end(), a) == s.adj[b].end()) out.push_back({"equivalences:invariant:asymmetric-equivalence", {{"state", s.str()}, {"a", a}, {"b", b}}});
            }
        }
        if (MODE == EQ_IDS) {
            for (int a = 0; a < NV; ++a) for (int b : s.adj[a]) {
                if (b <= a) continue;
                auto p = var[a].peek(), q = var[b].peek();
                if (!p || !q) continue;
                if (Variable::equivalenceMappingId(p, q) != Variable::equivalenceMappingId(q, p))
                    out.push_back({"equivalences:invariant:mapping-id-asymmetric", {{"state", s.str()}, {"ids", idDump()}, {"a", a}, {"b", b}}});
                if (Variable::equivalenceConnectionId(p, q) != Variable::equivalenceConnectionId(q, p))
                    out.push_back({"equivalences:invariant:connection-id-asymmetric", {{"state", s.str()}, {"ids", idDump()}, {"a", a}, {"b", b}}});
            }
        }
    }
    bool enabled(int i)
    {
        if (dead) return false;
        const Op &o = ops()[i];
        const EState &s = ref;
        switch (o.k) {
        case ADD2: case ADD4: case REMOVE: case SET_MAP: case SET_CONN: case RM_MAP: case RM_CONN: return s.heldV[o.a] && s.heldV[o.b];
        case REMOVE_ALL: case DROP_V: case BAD_ADD: case BAD_REMOVE: case BAD_IDS: return s.heldV[o.a];
        case RM_VAR: return s.heldV[o.a] && s.heldC[home(o.a)] && s.inComp[o.a];
        case ADD_VAR: return s.heldV[o.a] && s.heldC[home(o.a)] && !s.inComp[o.a];
        case DROP_C: return s.heldC[o.a];
        case DROP_M: return s.heldM;
        default: return true;
        }
    }
    static void eraseFrom(std::vector<int> &l, int v) { auto it = std::find(l.begin(), l.end(), v); if (it != l.end()) l.erase(it); }
    static bool has(const std::vector<int> &l, int v) { return std::find(l.begin(), l.end(), v) != l.end(); }
    static void settle(EState &t)
    {
        for (int c = 0; c < NC; ++c) t.aliveC[c] = t.heldC[c] || t.heldM;
        for (int v = 0; v < NV; ++v) {
            if (t.inComp[v] && !t.aliveC[home(v)]) t.inComp[v] = 0; // parent expired
            t.aliveV[v] = t.heldV[v] || t.inComp[v];
        }
        for (int v = 0; v < NV; ++v) if (!t.aliveV[v]) {
            t.adj[v].clear();
            for (int w = 0; w < NV; ++w) eraseFrom(t.adj[w], v);
        }
    }
    // allowed post-states; `free` => only the invariants judge (self-equivalence calls)
    std::vector<std::pair<EState, std::string>> refStep(const Op &o, std::string &situation, bool &free) const
    {
        std::vector<std::pair<EState, std::string>> al;
        const EState &s = ref;
        free = false;
        switch (o.k) {
        case ADD2: case ADD4:
            if (o.a == o.b) { free = true; situation = "self"; break; }
            if (has(s.adj[o.a], o.b)) { al.push_back({s, "false"}); situation = "already-equivalent"; }
            else { EState t = s; t.adj[o.a].push_back(o.b); t.adj[o.b].push_back(o.a); al.push_back({t, "true"}); situation = "new"; }
            break;
        case REMOVE:
            if (o.a == o.b) { free = true; situation = "self"; break; }
            if (has(s.adj[o.a], o.b)) { EState t = s; eraseFrom(t.adj[o.a], o.b); eraseFrom(t.adj[o.b], o.a); al.push_back({t, "true"}); situation = "equivalent"; }
            else { al.push_back({s, "false"}); situation = "not-equivalent"; }
            break;
        case REMOVE_ALL: {
            EState t = s;
            for (int w : s.adj[o.a]) eraseFrom(t.adj[w], o.a);
            t.adj[o.a].clear();
            al.push_back({t, ""});
            break;
        }
        case SET_MAP: case SET_CONN: case RM_MAP: case RM_CONN: al.push_back({s, ""}); break; // ids never change the graph
        case RM_VAR: { EState t = s; t.inComp[o.a] = 0; settle(t); al.push_back({t, "true"}); break; }
        case ADD_VAR: { EState t = s; t.inComp[o.a] = 1; settle(t); al.push_back({t, "true"}); break; }
        case DROP_V: { EState t = s; t.heldV[o.a] = 0; settle(t); al.push_back({t, ""}); situation = t.aliveV[o.a] ? "still-owned" : "destroyed"; break; }
        case DROP_C: { EState t = s; t.heldC[o.a] = 0; settle(t); al.push_back({t, ""}); situation = t.aliveC[o.a] ? "still-owned" : "destroyed"; break; }
        case DROP_M: { EState t = s; t.heldM = 0; settle(t); al.push_back({t, ""}); break; }
        case BAD_ADD: case BAD_REMOVE: al.push_back({s, "false,false"}); situation = o.b ? "foreign" : "null"; break;
        case BAD_IDS: al.push_back({s, ""}); situation = o.b ? "foreign" : "null"; break;
        default: break;
        }
        return al;
    }
    void apply(int i, std::vector<Viol> &out)
    {
        if (dead) return;
        const Op &o = ops()[i];
        std::string situation, ret;
        bool free = false;
        auto allowed = refStep(o, situation, free);
        auto B = [](bool b) { return std::string(b ? "true" : "false"); };
        auto &a = var[o.k == DROP_C || o.k == DROP_M ? 0 : o.a].held;
        auto &b = var[o.k == DROP_C || o.k == DROP_M || o.k >= BAD_ADD ? 0 : o.b].held;
        VariablePtr bad = (o.k >= BAD_ADD && o.b) ? foreign : nullptr;
        switch (o.k) {
        case ADD2: ret = B(Variable::addEquivalence(a, b)); break;
        case ADD4: ret = B(Variable::addEquivalence(a, b, "m1", "k1")); break;
        case REMOVE: ret = B(Variable::removeEquivalence(a, b)); break;
        case REMOVE_ALL: a->removeAllEquivalences(); break;
        case SET_MAP: Variable::setEquivalenceMappingId(a, b, "m1"); break;
        case SET_CONN: Variable::setEquivalenceConnectionId(a, b, "k1"); break;
        case RM_MAP: Variable::removeEquivalenceMappingId(a, b); break;
        case RM_CONN: Variable::removeEquivalenceConnectionId(a, b); break;
        case RM_VAR: ret = B(comp[home(o.a)].held->removeVariable(a)); break;
        case ADD_VAR: ret = B(comp[home(o.a)].held->addVariable(a)); break;
        case DROP_V: var[o.a].held.reset(); break;
        case DROP_C: comp[o.a].held.reset(); break;
        case DROP_M: model.held.reset(); break;
        case BAD_ADD: ret = B(Variable::addEquivalence(a, nullptr)) + "," + B(Variable::addEquivalence(nullptr, a)); break;
        case BAD_REMOVE: ret = B(Variable::removeEquivalence(a, bad)) + "," + B(Variable::removeEquivalence(bad, a)); break;
        case BAD_IDS:
            Variable::setEquivalenceMappingId(a, bad, "m1"); Variable::setEquivalenceMappingId(bad, a, "m1");
            Variable::setEquivalenceConnectionId(a, bad, "k1"); Variable::setEquivalenceConnectionId(bad, a, "k1");
            Variable::removeEquivalenceMappingId(a, bad); Variable::removeEquivalenceMappingId(bad, a);
            Variable::removeEquivalenceConnectionId(a, bad); Variable::removeEquivalenceConnectionId(bad, a);
            break;
        default: break;
        }
        std::vector<Viol> iv;
        // queries FIRST (they are pure; observe() is pure too, but keep the order fixed): every query of the equivalence API
        // with null / never-connected / every live variable as argument, in the state the operation left behind
        // (including expired weak entries right after a partner was destroyed)
        EState obs = observe(&iv);
        querySweep(obs, iv);
        checkInvariants(obs, iv);
        if (!iv.empty()) {
            std::set<std::string> seen;
            for (auto &v : iv) if (seen.insert(v.sig).second) { Viol w = v; w.sig += std::string(":after:") + kindName(o.k) + (situation.empty() ? "" : ":" + situation); w.detail["op"] = opName(i); w.detail["pre"] = ref.str(); out.push_back(w); }
            dead = true;
            deadWhy = "VIOLATED";
            return;
        }
        if (free) { ref = obs; return; }
        for (auto &x : allowed) if (x.first == obs && x.second == ret) { ref = obs; return; }
        json al = json::array();
        for (auto &x : allowed) al.push_back({{"state", x.first.str()}, {"ret", x.second}});
        out.push_back({std::string("equivalences:") + kindName(o.k) + ":" + situation + ":post-state-not-allowed", {{"op", opName(i)}, {"pre", ref.str()}, {"observed", obs.str()}, {"ret", ret}, {"allowed", al}}});
        dead = true;
        deadWhy = "VIOLATED";
    }
    std::string canon() { return dead ? deadWhy : observe().str() + (MODE == EQ_IDS ? " ids:" + idDump() : std::string()) + (MODE == EQ_LIFE ? expiredDump() : std::string()); }
    void invariant(std::vector<Viol> &out)
    {
        if (dead) return;
        std::vector<Viol> iv;
        EState s = observe(&iv);
        querySweep(s, iv);
        checkInvariants(s, iv);
        for (auto &v : iv) out.push_back(v);
    }
};

} // namespace c09
