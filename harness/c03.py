#!/usr/bin/env python3
"""C03 / C17 — generated code computes what the equations say, and its declared structure matches the analysed model.
Exhaustive over expression-tree shapes (lib/mexpr.py) x context wrappers; each shape is evaluated at up to 3 leaf
valuations against the reference evaluator; shapes are packed 32 per model and an anomalous pack is bisected down to
single shapes (family 'shape' = one shape per model, also the replay address of every violation).

  --prop=C03  value oracles (C vs reference, Python vs reference, C vs Python, NLA objective at the solution)
  --prop=C17  structure oracles (compiles warning-free, counts, info tables, helper functions, declared == defined)
  --set=q|t   shape set (quick / thorough)     --wrap=w1|w2|w3|w4|w5 (w5: operands a, d live in another component in mm / km)
"""
import os, sys, json, re, math, shutil, tempfile
V = os.path.dirname(os.path.dirname(os.path.abspath(__file__)))
sys.path.insert(0, os.path.join(V, 'lib'))
import mexpr as M
import codeexec as X
from pyharness import Ctx, Family, Lcx, main

PACK = 32
_shapes_cache = {}


def shapes(setname):
    if setname in _shapes_cache:
        return _shapes_cache[setname]
    s = [M.leaf_var('a'), M.leaf_cn('3.5')] + M.depth1_shapes() + M.depth2_shapes()
    if setname == 'q':
        s += M.depth3_shapes(['minus', 'minus1', 'divide', 'power', 'and', 'not', 'lt', 'plus', 'times'])
    else:
        s += M.depth3_shapes(M.PRECEDENCE_SENSITIVE)
    _shapes_cache[setname] = s
    return s


def shape_sig(e):
    """parent[pos]=child[pos]=grandchild — the class of a shape for known-finding matching."""
    if e[0] in ('ci', 'cn', 'const'):
        return e[0] + ':' + e[1] if e[0] == 'const' else e[0]
    for pos, x in enumerate(e[1:]):
        if x[0] not in ('ci', 'cn') or (x[0] == 'cn'):
            if x[0] == 'ci':
                continue
            return '%s[%d]=%s' % (e[0], pos, shape_sig(x))
    return e[0]


NS = 'xmlns="http://www.cellml.org/cellml/2.0#"'
MNS = 'xmlns="http://www.w3.org/1998/Math/MathML" xmlns:cellml="http://www.cellml.org/cellml/2.0#"'


def subst(e, mp):
    if e[0] == 'ci':
        return ('ci', mp.get(e[1], e[1]))
    if e[0] in ('cn', 'const'):
        return e
    return (e[0],) + tuple(subst(x, mp) for x in e[1:])


def build_model(items, wrap):
    """items: list of (k, expr). Returns (doc, expectations) where expectations is a list of
    dict(k, v, var, kind in {'variable','rate'}, value, voi)."""
    var_xml, eqs, exp = [], [], []
    src_vars, maps = [], []
    used_vals = set()
    for k, e in items:
        for v, val in enumerate(M.VALUATIONS):
            try:
                ref = M.ev(e, val, strict=True)
            except M.DomainError:
                continue
            used_vals.add(v)
            mp = {n: '%s_%d' % (n, v) for n in ('a', 'b', 'd', 'p', 'r')}
            y = 'y_%d_%d' % (k, v)
            if wrap in ('w1', 'w5'):
                var_xml.append('<variable name="%s" units="dimensionless"/>' % y)
                eqs.append('<apply><eq/><ci>%s</ci>%s</apply>' % (y, M.mathml(subst(e, mp))))
                exp.append(dict(k=k, v=v, var=y, kind='variable', value=ref, voi=0.0))
            elif wrap == 'w2':
                mp['a'] = 'X_%d' % v
                var_xml.append('<variable name="%s" units="dimensionless"/>' % y)
                eqs.append('<apply><eq/><ci>%s</ci>%s</apply>' % (y, M.mathml(subst(e, mp))))
                exp.append(dict(k=k, v=v, var=y, kind='variable', value=ref, voi=0.75))
            elif wrap == 'w3':
                x = 'x_%d_%d' % (k, v)
                mp['a'] = x
                var_xml.append('<variable name="%s" units="dimensionless" initial_value="%r"/>' % (x, val['a']))
                eqs.append('<apply><eq/><apply><diff/><bvar><ci>t</ci></bvar><ci>%s</ci></apply>%s</apply>' % (x, M.mathml(subst(e, mp))))
                exp.append(dict(k=k, v=v, var=x, kind='rate', value=ref, voi=0.0))
                exp.append(dict(k=k, v=v, var=x, kind='state', value=val['a'], voi=0.0))
            elif wrap == 'w4':
                var_xml.append('<variable name="%s" units="dimensionless" initial_value="0.5"/>' % y)
                # implicit form: E - y = y - y ... keep the unknown on both sides so that it cannot be isolated
                eqs.append('<apply><eq/><apply><minus/>%s<ci>%s</ci></apply><apply><minus/><ci>%s</ci><ci>%s</ci></apply></apply>' % (M.mathml(subst(e, mp)), y, y, y))
                exp.append(dict(k=k, v=v, var=y, kind='variable', value=ref, voi=0.0, nla=True))
    for v in sorted(used_vals):
        val = M.VALUATIONS[v]
        for n in ('a', 'b', 'd', 'p', 'r'):
            if wrap == 'w2' and n == 'a':
                var_xml.append('<variable name="X_%d" units="dimensionless" initial_value="%r"/>' % (v, val['a']))
                eqs.append('<apply><eq/><apply><diff/><bvar><ci>t</ci></bvar><ci>X_%d</ci></apply><cn cellml:units="dimensionless">1</cn></apply>' % v)
                continue
            if wrap == 'w3' and n == 'a':
                continue
            if wrap == 'w5' and n in ('a', 'd'):
                # the operand lives in component 'src' in scaled units and reaches 'c' through a connection:
                # a in millimetres (value x 1000), d in kilometres (value / 1000); 'c' sees both in metres
                unit, fac = ('mm', 1000.0) if n == 'a' else ('km', 0.001)
                src_vars.append('<variable name="%s_%d" units="%s" interface="public" initial_value="%r"/>' % (n, v, unit, val[n] * fac))
                var_xml.append('<variable name="%s_%d" units="metre" interface="public"/>' % (n, v))
                maps.append('<map_variables variable_1="%s_%d" variable_2="%s_%d"/>' % (n, v, n, v))
                continue
            if wrap == 'w4':
                # constants defined by equations: an initialised variable inside an implicit equation would be an unknown with an initial guess
                var_xml.append('<variable name="%s_%d" units="dimensionless"/>' % (n, v))
                eqs.append('<apply><eq/><ci>%s_%d</ci>%s</apply>' % (n, v, M.mathml(M.leaf_cn(repr(val[n])))))
                continue
            var_xml.append('<variable name="%s_%d" units="dimensionless" initial_value="%r"/>' % (n, v, val[n]))
    if wrap in ('w2', 'w3'):
        var_xml.append('<variable name="t" units="dimensionless"/>')
    if wrap == 'w2' and used_vals:
        # the variable of integration must flow into computeVariables
        var_xml.append('<variable name="yt" units="dimensionless"/>')
        eqs.append('<apply><eq/><ci>yt</ci><apply><plus/><ci>t</ci><ci>X_%d</ci></apply></apply>' % min(used_vals))
        exp.append(dict(k=items[0][0], v=min(used_vals), var='yt', kind='variable', value=0.75 + M.VALUATIONS[min(used_vals)]['a'], voi=0.75))
    units = src = conn = ''
    if src_vars:
        units = '<units name="mm"><unit units="metre" prefix="milli"/></units>\n<units name="km"><unit units="metre" prefix="kilo"/></units>\n'
        src = '<component name="src">\n%s\n</component>\n' % '\n'.join(src_vars)
        conn = '<connection component_1="c" component_2="src">%s</connection>\n' % ''.join(maps)
    doc = '<?xml version="1.0" encoding="UTF-8"?>\n<model %s name="m">\n%s<component name="c">\n%s\n<math %s>\n%s\n</math>\n</component>\n%s%s</model>\n' % (
        NS, units, '\n'.join(var_xml), MNS, '\n'.join(eqs), src, conn)
    return doc, exp


def helper_usage(equations):
    used = set()

    def walk(a):
        if not isinstance(a, list) or not a:
            return
        used.add(a[0])
        for x in a[1:]:
            walk(x)
    for e in equations:
        walk(e.get('ast'))
    return used


# helper function name in the C profile -> AST node types that need it (from the profile's documented helper set)
C_HELPERS = {'xor': ['XOR'], 'min': ['MIN'], 'max': ['MAX'], 'sec': ['SEC'], 'csc': ['CSC'], 'cot': ['COT'], 'sech': ['SECH'], 'csch': ['CSCH'], 'coth': ['COTH'],
             'asec': ['ASEC'], 'acsc': ['ACSC'], 'acot': ['ACOT'], 'asech': ['ASECH'], 'acsch': ['ACSCH'], 'acoth': ['ACOTH']}
PY_HELPERS = dict(C_HELPERS)
PY_HELPERS.update({'eq_func': ['EQ'], 'neq_func': ['NEQ'], 'lt_func': ['LT'], 'leq_func': ['LEQ'], 'gt_func': ['GT'], 'geq_func': ['GEQ'], 'and_func': ['AND'], 'or_func': ['OR'], 'xor_func': ['XOR'], 'not_func': ['NOT']})
PY_HELPERS.pop('xor')


class Runner:
    def __init__(self, opts):
        self.prop = opts.get('prop', 'C03')
        self.setname = opts.get('set', 'q')
        self.wrap = opts.get('wrap', 'w1')
        self.flavour = opts.get('flavour', 'plain')
        self.lcx = None
        self.tmp = None

    def work(self):
        if self.tmp is None:
            base = os.path.join(V, 'build', 'scratch')
            os.makedirs(base, exist_ok=True)
            self.tmp = tempfile.mkdtemp(prefix='c03.', dir=base)
        return self.tmp

    def cleanup(self):
        if self.lcx:
            self.lcx.close()
        if self.tmp:
            shutil.rmtree(self.tmp, ignore_errors=True)

    # returns list of (k, sig, detail); k=None for pack-level anomalies
    def evaluate(self, items, ctx):
        if self.lcx is None:
            self.lcx = Lcx(self.flavour)
        doc, exp = build_model(items, self.wrap)
        probs = []
        if not exp:
            return probs, 0
        job = {'id': 0, 'doc': doc, 'ast': self.prop == 'C17', 'code': True}
        mm = re.search(r'(<component name="c">.*?)(<math [^>]*>)\n(.*?)\n</math>', doc, re.S)
        if mm and '\n' in mm.group(3):
            # afterwards the caller lists the same equations in the opposite order on the SAME model object (indices shift), analyses
            # again with the same analyser and generates with the same generator: must equal what fresh instances produce
            job['regen_math'] = {'c': mm.group(2) + '\n' + '\n'.join(reversed(mm.group(3).split('\n'))) + '\n</math>'}
        res = self.lcx.job(job)
        if 'crash' in res:
            return [(None, 'pipeline-crash:' + res['crash'], {'stderr_tail': res.get('stderr', '')})], 0
        rg = res.get('regen')
        if rg is not None:
            if rg.get('type_reused_analyser') != rg.get('type_fresh_analyser') or not rg.get('issues_same', True):
                probs.append((None, 'history:reused-analyser-differs-from-fresh-analyser-after-the-model-was-edited', {k: rg.get(k) for k in ('type_reused_analyser', 'type_fresh_analyser')}))
            for k in ('c_h_same', 'c_c_same', 'py_same'):
                if rg.get(k) is False:
                    probs.append((None, 'history:reused-generator-differs-from-fresh-generator-after-the-model-was-edited:' + k[:-5],
                                  {'reused': (rg.get('c_c_reused') or '')[-1500:], 'fresh': (rg.get('c_c_fresh') or '')[-1500:]}))
        for x in res.get('c15', []):
            probs.append((None, 'C15:logger-incoherent:' + x['service'], x))
        if res.get('parse_issues') or res.get('validate_errors', 0) or not res.get('valid'):
            iss = (res.get('parse_issues') or []) + (res.get('validate_issues') or []) + (res.get('analyse_issues') or [])
            errs = [i for i in iss if i['level'] == 'ERROR']
            probs.append((None, 'valid-model-not-analysed:%s' % res.get('type'), {'issues': errs[:3]}))
            return probs, 0
        idx = {}
        for s in res.get('states', []):
            idx[(s['var'], 'state')] = s['index']
        for s in res.get('variables', []):
            idx[(s['var'], 'variable')] = s['index']
        njudged = 0
        # ---- C
        crun = prun = None
        cdir = None
        try:
            so, cdir = X.compile_c(res['c_h'], res['c_c'], self.work(), 'm', strict=self.prop == 'C17')
            crun = X.CRun(so, res['c_h'])
        except OSError as oe:
            probs.append((None, 'c-library-does-not-load', {'error': str(oe)[:300]}))
        except X.CompileError as ce:
            first = re.search(r'(error|warning): (.*?)( \[-W[^\]]*\])?$', ce.diag, re.M)
            probs.append((None, 'c-does-not-compile-cleanly' + (first.group(3).strip() if first and first.group(3) else ''), {'diagnostics': ce.diag[:1500]}))
        try:
            prun = X.PyRun(res['py'])
        except Exception as ex:
            probs.append((None, 'python-does-not-load:%s' % type(ex).__name__, {'error': str(ex)[:500]}))
        if self.prop == 'C17':
            probs += self.structure(res, crun, prun)
            if cdir:
                shutil.rmtree(cdir, ignore_errors=True)
            return probs, len(items)
        # ---- values
        byvoi = {}
        for e in exp:
            byvoi.setdefault(e['voi'], []).append(e)
        nla_bad = []

        def make_nla(kind):
            def nla(obj, u, n, arrays):
                sent = [98765.4321 + 7 * i for i in range(n)]
                obj(sent)
                vars_ = list(arrays['variables'])
                target = []
                for sv in sent:
                    hit = [i for i, x in enumerate(vars_) if x == sv]
                    target.append(hit[0] if hit else None)
                want = []
                for ti in target:
                    e = next((e for e in exp if e.get('nla') and idx.get((e['var'], 'variable')) == ti), None)
                    want.append(e['value'] if e else float('nan'))
                f = obj(want)
                for fi, ti in zip(f, target):
                    scale = max(1.0, max(abs(w) for w in want if w == w) if any(w == w for w in want) else 1.0)
                    if not (abs(fi) <= 1e-9 * scale):
                        nla_bad.append((kind, ti, fi))
                return want
            return nla
        for voi, es in byvoi.items():
            outs = {}
            for kind, run in (('C', crun), ('Python', prun)):
                if run is None:
                    continue
                try:
                    outs[kind] = run.run(voi=voi, nla=make_nla(kind))
                except Exception as ex:
                    probs.append((None, '%s-run-raised:%s' % (kind, type(ex).__name__), {'error': str(ex)[:300]}))
            for e in es:
                njudged += 1
                arr = {'variable': 'variables', 'rate': 'rates', 'state': 'states'}[e['kind']]
                key = (e['var'], 'state' if e['kind'] in ('rate', 'state') else 'variable')
                if key not in idx:
                    probs.append((e['k'], 'variable-missing-from-analysed-model', {'var': e['var']}))
                    continue
                got = {}
                for kind in outs:
                    got[kind] = outs[kind][arr][idx[key]]
                    if not X.close(got[kind], e['value'], rel=1e-9):
                        probs.append((e['k'], 'value-mismatch:%s:%s' % (kind, e['kind']), {'var': e['var'], 'valuation': e['v'], 'got': repr(got[kind]), 'want': repr(e['value'])}))
                if len(got) == 2 and not X.close(got['C'], got['Python'], rel=1e-9):
                    probs.append((e['k'], 'profiles-disagree:%s' % e['kind'], {'var': e['var'], 'C': repr(got['C']), 'Python': repr(got['Python'])}))
        for kind, ti, fi in nla_bad:
            e = next((e for e in exp if e.get('nla') and idx.get((e['var'], 'variable')) == ti), None)
            probs.append((e['k'] if e else None, 'nla-objective-nonzero-at-solution:%s' % kind, {'var': e['var'] if e else None, 'f': repr(fi)}))
        if cdir:
            shutil.rmtree(cdir, ignore_errors=True)
        return probs, njudged

    def structure(self, res, crun, prun):
        """C17 oracles for one analysed valid model."""
        probs = []
        nst, nv = len(res.get('states', [])), len(res.get('variables', []))
        tmap = {'variable_of_integration': 'VARIABLE_OF_INTEGRATION', 'state': 'STATE', 'constant': 'CONSTANT', 'computed_constant': 'COMPUTED_CONSTANT', 'algebraic': 'ALGEBRAIC', 'external': 'EXTERNAL'}
        for kind, run in (('C', crun), ('Python', prun)):
            if run is None:
                continue
            info = run.info()
            if info is None:
                probs.append((None, 'structure:%s:info-struct-not-found' % kind, {}))
                continue
            if info['VARIABLE_COUNT'] != nv or len(info['variables']) != nv:
                probs.append((None, 'structure:%s:VARIABLE_COUNT-differs' % kind, {'code': info['VARIABLE_COUNT'], 'model': nv}))
            if res.get('states') and info.get('STATE_COUNT') != nst:
                probs.append((None, 'structure:%s:STATE_COUNT-differs' % kind, {'code': info.get('STATE_COUNT'), 'model': nst}))
            for arr, lst in (('variables', res.get('variables', [])), ('states', res.get('states', []))):
                for i, av in enumerate(lst):
                    if i >= len(info.get(arr, [])):
                        break
                    ci = info[arr][i]
                    if (ci['name'], ci['units'], ci['component'], ci['type']) != (av['var'], av['units'], av['comp'], tmap.get(av['type'])):
                        probs.append((None, 'structure:%s:%s-info-entry-differs' % (kind, arr), {'index': i, 'code': ci, 'model': av}))
                    if kind == 'C' and not ci.get('terminated', True):
                        probs.append((None, 'structure:C:info-string-overflows-its-buffer', {'index': i, 'code': ci}))
            if res.get('voi') and info.get('voi'):
                ci, av = info['voi'], res['voi']
                if (ci['name'], ci['units'], ci['component'], ci['type']) != (av['var'], av['units'], av['comp'], 'VARIABLE_OF_INTEGRATION'):
                    probs.append((None, 'structure:%s:VOI_INFO-differs' % kind, {'code': ci, 'model': av}))
        used = helper_usage(res.get('equations', []))
        ccode = res.get('c_c', '')
        for h, needs in C_HELPERS.items():
            defined = re.search(r'^double %s\(' % h, ccode, re.M) is not None
            need = any(n in used for n in needs)
            if defined != need:
                probs.append((None, 'structure:C:helper-%s-%s' % (h, 'missing' if need else 'emitted-but-unused'), {}))
        pcode = res.get('py', '')
        for h, needs in PY_HELPERS.items():
            defined = re.search(r'^def %s\(' % h, pcode, re.M) is not None
            need = any(n in used for n in needs)
            if defined != need:
                probs.append((None, 'structure:Python:helper-%s-%s' % (h, 'missing' if need else 'emitted-but-unused'), {}))
        # declared in the interface == defined exactly once in the implementation, same signature
        for m in re.finditer(r'^(\w[\w \*]*?)\b(\w+)\(([^)]*)\);', res.get('c_h', ''), re.M):
            ret, name, params = m.group(1).strip(), m.group(2), m.group(3).strip()
            if ret.startswith('typedef') or '(*' in m.group(0):
                continue
            defs = re.findall(r'^%s\s*%s\(%s\)\s*\{' % (re.escape(ret), re.escape(name), re.escape(params)), ccode, re.M)
            if len(defs) != 1:
                probs.append((None, 'structure:C:declared-function-defined-%d-times' % len(defs), {'function': name}))
        return probs


def families(opts):
    r = Runner(opts)
    S = shapes(r.setname)

    def run_pack(i, ctx):
        items = [(k, S[k]) for k in range(i * PACK, min(len(S), (i + 1) * PACK))]
        probs, n = r.evaluate(items, ctx)
        ctx.judged += n
        ctx.count('shapes', len(items))
        for k, e in items:   # vacuity evidence: which operators were exercised, and how many valuations each shape could use
            usable = 0
            for val in M.VALUATIONS:
                try:
                    M.ev(e, val, strict=True)
                    usable += 1
                except M.DomainError:
                    pass
            ctx.outcome('top-operator:%s' % e[0])
            ctx.count('usable_valuations_%d' % usable)
        if not probs:
            ctx.count('packs_clean')
            return
        ctx.count('packs_bisected')
        for k, e in items:  # bisect: every member alone
            ctx.index = i
            p2, _ = r.evaluate([(k, e)], ctx)
            seen = set()
            for kk, sig, det in p2:
                if sig in seen:
                    continue
                seen.add(sig)
                det = dict(det)
                det['shape'] = M.show(e)
                det['wrap'] = r.wrap
                full = sig if sig.startswith('C15:') else '%s:%s' % (r.wrap, sig) if sig.startswith('history:') else '%s:%s:%s' % (r.wrap, sig, shape_sig(e))
                ctx.violation(full, det, index=k, family='shape')

    def run_shape(k, ctx):
        e = S[k]
        probs, n = r.evaluate([(k, e)], ctx)
        ctx.judged += n
        ctx.outcome('clean' if not probs else 'anomalous')
        if ctx.verbose:
            doc, exp = build_model([(k, e)], r.wrap)
            print(doc)
            print(json.dumps(exp))
        seen = set()
        for kk, sig, det in probs:
            if sig in seen:
                continue
            seen.add(sig)
            det = dict(det)
            det['shape'] = M.show(e)
            det['wrap'] = r.wrap
            ctx.violation(sig if sig.startswith('C15:') else '%s:%s' % (r.wrap, sig) if sig.startswith('history:') else '%s:%s:%s' % (r.wrap, sig, shape_sig(e)), det)

    def show_shape(k):
        doc, exp = build_model([(k, S[k])], r.wrap)
        return {'shape': M.show(S[k]), 'wrap': r.wrap, 'document': doc, 'expected': exp}

    def mdl(vars_, eqs):
        return '<?xml version="1.0" encoding="UTF-8"?>\n<model %s name="m"><component name="c">%s<math %s>%s</math></component></model>' % (NS, ''.join(vars_), MNS, ''.join(eqs))
    V_ = lambda n, iv=None: '<variable name="%s" units="dimensionless"%s/>' % (n, '' if iv is None else ' initial_value="%s"' % iv)
    CN = lambda x: '<cn cellml:units="dimensionless">%s</cn>' % x
    EQ = lambda l, r_: '<apply><eq/>%s%s</apply>' % (l, r_)
    CI = lambda n: '<ci>%s</ci>' % n
    DIFF = lambda x, t='t': '<apply><diff/><bvar><ci>%s</ci></bvar><ci>%s</ci></apply>' % (t, x)
    INVALID = [
        ('nomodel', None), ('nullmodel', None),
        ('underconstrained', mdl([V_('x'), V_('y')], [EQ(CI('x'), '<apply><plus/>%s%s</apply>' % (CI('y'), CN(1)))])),
        ('overconstrained', mdl([V_('x')], [EQ(CI('x'), CN(1)), EQ(CI('x'), CN(2))])),
        ('unsuitably', mdl([V_('x'), V_('y'), V_('z')], [EQ(CI('x'), CN(1)), EQ(CI('x'), CN(2)), EQ(CI('y'), '<apply><plus/>%s%s</apply>' % (CI('z'), CN(1)))])),
        ('two-voi', mdl([V_('x', 1), V_('y', 1), V_('t'), V_('s')], [EQ(DIFF('x', 't'), CN(1)), EQ(DIFF('y', 's'), CN(1))])),
        ('initialised-voi', mdl([V_('x', 1), V_('t', 0)], [EQ(DIFF('x'), CN(1))])),
        ('uninitialised-state', mdl([V_('x'), V_('t')], [EQ(DIFF('x'), CN(1))])),
        ('second-order-ode', mdl([V_('x', 1), V_('t')], ['<apply><eq/><apply><diff/><bvar><ci>t</ci><degree>%s</degree></bvar><ci>x</ci></apply>%s</apply>' % (CN(2), CN(1))])),
        ('validation-error', mdl([V_('x'), '<variable name="x" units="dimensionless"/>'], [EQ(CI('x'), CN(1))])),
        ('unknown-units', mdl(['<variable name="x" units="nounits"/>'], [EQ(CI('x'), CN(1))])),
        ('not-equality', mdl([V_('x')], ['<apply><plus/>%s%s</apply>' % (CI('x'), CN(1))])),
        ('empty-model', '<?xml version="1.0"?><model %s name="m"/>' % NS),
        ('no-math', '<?xml version="1.0"?><model %s name="m"><component name="c">%s</component></model>' % (NS, V_('x', 1))),
    ]

    def run_invalid(i, ctx):
        name, doc = INVALID[i]
        if r.lcx is None:
            r.lcx = Lcx(r.flavour)
        job = {'id': i, 'nomodel': True, 'nullmodel': name == 'nullmodel'} if doc is None else {'id': i, 'doc': doc}
        res = r.lcx.job(job)
        ctx.judged += 1
        if 'crash' in res:
            ctx.violation('invalid:%s:pipeline-crash:%s' % (name, res['crash']), {'stderr_tail': res.get('stderr', '')})
            return
        for x in res.get('c15', []):
            ctx.violation('C15:logger-incoherent:' + x['service'], x)
        ctx.outcome('%s:%s' % (name, res.get('type')))
        if doc is not None and res.get('valid'):
            if name in ('empty-model', 'no-math'):
                ctx.outcome('analysed-as-valid:' + name)
                return
            ctx.violation('invalid:%s:analysed-as-valid' % name, {'type': res.get('type')})
            return
        if doc is not None and not res.get('analyse_issues') and name not in ('empty-model', 'no-math'):
            ctx.violation('C15:failure-not-explained:analyser:%s' % name, {'type': res.get('type')})
        for k in ('c_h', 'c_c', 'py_h', 'py'):
            if res.get(k, '') != '':
                ctx.violation('structure:code-not-empty-for-%s:%s' % ('missing-model' if doc is None else 'invalid-model', k), {'case': name, 'type': res.get('type'), 'code_head': res[k][:200]})

    import atexit
    atexit.register(r.cleanup)
    return [Family('pack', lambda: (len(S) + PACK - 1) // PACK, run_pack, lambda i: {'pack': i, 'wrap': r.wrap, 'first_shape': M.show(S[i * PACK]), 'last_shape': M.show(S[min(len(S), (i + 1) * PACK) - 1])}),
            Family('shape', lambda: len(S), run_shape, show_shape),
            Family('invalid', lambda: len(INVALID), run_invalid, lambda i: {'case': INVALID[i][0], 'document': INVALID[i][1]})]


if __name__ == '__main__':
    sys.exit(main(families))
