// FLAVOURS: asan plain
// C14 — CellML 1.0/1.1 documents are faithfully transformed in permissive mode.
// Every spec of the shared enumerator (no resets; imports only as 1.1) is rendered as CellML 2.0 and as CellML 1.0/1.1 under
// EVERY combination of the applicable legacy spelling choices (modelspec.hpp: Legacy).  Oracle: permissive parse of the 1.x
// document == strict parse of the 2.0 document (canonical dump, interface "none" == absent), nothing above MESSAGE, the
// transformed model validates, and the strict parser refuses the 1.x document with an error and loads nothing.
#include "modelspec.hpp"

using namespace vf;

namespace {

std::string firstAbove(const LoggerPtr &l)
{
    for (size_t i = 0; i < l->issueCount(); ++i) if (l->issue(i)->level() != Issue::Level::MESSAGE)
        return std::string(levelName(l->issue(i)->level())) + ":rule" + std::to_string(int(l->issue(i)->referenceRule()));
    return "";
}
std::string firstRule(const LoggerPtr &l)
{
    return l->issueCount() ? std::string(levelName(l->issue(0)->level())) + ":rule" + std::to_string(int(l->issue(0)->referenceRule())) : std::string("none");
}
const std::string &emptyCanon()
{
    static const std::string e = canonModel(Model::create());
    return e;
}

// doc1x must transform into the model the strict parser reads from doc20.  `sigBase` names the family, `tail` the legacy
// feature a failure is attributed to (part of the failure class), `valid`: the 2.0 model is valid, so the transformed one must be too
void judgePair(Ctx &c, const std::string &doc1x, const std::string &doc20, const char *version, bool valid, const std::string &sigBase, const std::string &tail, const json &what)
{
    ms::g_noneIsEmpty = true;
    auto p20 = Parser::create(true);
    auto m20 = p20->parseModel(doc20);
    c.logger(p20, "parser");
    const std::string want = ms::normCanon(canonModel(m20));
    auto pp = Parser::create(false);
    auto m1 = pp->parseModel(doc1x);
    c.logger(pp, "parser");
    ++c.judged;
    const std::string got = ms::normCanon(canonModel(m1));
    std::string above = firstAbove(pp);
    bool same = got == want;
    c.outcome(std::string(version) + (same ? " same" : " differs") + (above.empty() ? "" : " " + above) + " messages=" + std::to_string(std::min<size_t>(pp->messageCount(), 9)) + tail);
    if (!above.empty())
        c.violation(sigBase + ":permissive:issue-above-message:" + above, {{"case", what}, {"issues", issuesJson(pp)}, {"document", safe(doc1x, 3000)}});
    if (!same)
        c.violation(sigBase + ":permissive:content-differs:" + ms::diffAspects(m20, m1) + tail, {{"case", what}, {"expected", safe(want, 1500)}, {"got", safe(got, 1500)}, {"document", safe(doc1x, 3000)}, {"issues", issuesJson(pp)}});
    bool versionMessage = pp->issueCount() > 0 && pp->issue(0)->level() == Issue::Level::MESSAGE && pp->issue(0)->description().find(std::string("CellML ") + version + " model") != std::string::npos;
    if (!versionMessage) c.violation(sigBase + ":permissive:no-version-message", {{"case", what}, {"issues", issuesJson(pp)}});
    if (valid && same) { // the transformed model is a valid 2.0 model (math namespaces included)
        auto v = Validator::create();
        v->validateModel(m1);
        c.logger(v, "validator");
        if (v->issueCount()) c.violation(sigBase + ":permissive:transformed-model-invalid:" + firstRule(v), {{"case", what}, {"issues", issuesJson(v)}, {"document", safe(doc1x, 3000)}});
        // and it prints as 2.0 and reads back the same (the transformation is complete, nothing 1.x is left behind)
        auto pr = Printer::create();
        std::string text = pr->printModel(m1);
        c.logger(pr, "printer");
        auto p3 = Parser::create(true);
        auto m3 = p3->parseModel(text);
        c.logger(p3, "parser");
        if (ms::normCanon(canonModel(m3)) != want) c.violation(sigBase + ":permissive:printed-transformed-model-differs:" + ms::diffAspects(m20, m3), {{"case", what}, {"printed", safe(text, 2500)}});
    }
    auto ps = Parser::create(true);
    auto mS = ps->parseModel(doc1x);
    c.logger(ps, "parser");
    if (ps->errorCount() == 0) c.violation(sigBase + ":strict:no-error", {{"case", what}, {"issues", issuesJson(ps)}});
    if (canonModel(mS) != emptyCanon()) c.violation(sigBase + ":strict:content-loaded", {{"case", what}, {"got", safe(canonModel(mS), 1500)}});
}

// ------------------------------------------------------------------ family legacy-*: specs x all applicable legacy combinations
struct LegacySpace
{
    std::vector<ms::Spec> specs;
    std::vector<uint64_t> start;
    uint64_t total = 0;
    void add(const ms::SpecFamily &f, const std::function<bool(const ms::Spec &)> &keep = nullptr)
    {
        for (uint64_t i = 0; i < f.count(); ++i) {
            auto s = f.at(i);
            if (keep && !keep(s)) continue;
            start.push_back(total);
            total += ms::legacyCount(s);
            specs.push_back(std::move(s));
        }
    }
    std::pair<const ms::Spec *, ms::Legacy> at(uint64_t i) const
    {
        size_t k = size_t(std::upper_bound(start.begin(), start.end(), i) - start.begin()) - 1;
        return {&specs[k], ms::legacyAt(specs[k], i - start[k])};
    }
};
std::shared_ptr<LegacySpace> makeSpace(bool thorough)
{
    auto sp = std::make_shared<LegacySpace>();
    ms::HParams h;
    h.kmax = thorough ? 3 : 2;
    h.smax = 2;
    h.perms = false;
    h.flips = false;
    h.nameOrders = thorough;
    h.idpats = thorough ? std::vector<int>{0, 3, 4} : std::vector<int>{0, 3};
    if (thorough) { h.kFull = 2; h.sSmall = 1; }
    sp->add(ms::familyH("h", h));
    sp->add(ms::familyV("v"));
    sp->add(ms::familyU(thorough ? "u-t" : "u-q", thorough), [thorough](const ms::Spec &s) {
        // quick: one definition with <= 1 unit child (all attribute combinations) and all two-definition specs; the 2916
        // two-children definitions and the three-definition structures (attribute values and listing orders the 1.x reader
        // treats exactly like the 2.0 reader) are left to the thorough tier
        return thorough || (s.units.size() == 1 && s.units[0].kids.size() <= 1) || s.units.size() == 2;
    });
    sp->add(ms::familyI(thorough ? "i-t" : "i-q", thorough));
    sp->add(ms::familyM("m"));
    return sp;
}
Family legacyFamily(const std::string &name, bool thorough)
{
    auto cell = std::make_shared<std::shared_ptr<LegacySpace>>();
    auto get = [cell, thorough]() -> const LegacySpace & { if (!*cell) *cell = makeSpace(thorough); return **cell; };
    return {name, [get] { return get().total; },
            [get](uint64_t i, Ctx &c) {
                auto e = get().at(i);
                const ms::Spec &s = *e.first;
                const ms::Legacy &l = e.second;
                json what = {{"family", s.family}, {"legacy", l.toJson()}};
                if (c.verbose) what["spec"] = ms::toJson(s);
                judgePair(c, ms::xml1x(s, l), ms::xml20(s, 0), l.ns ? "1.1" : "1.0", s.valid, "c14:" + s.family.substr(0, 1), l.explicitNone ? ":explicit-none" : "", what);
            },
            [get](uint64_t i) { auto e = get().at(i); return json{{"spec", ms::toJson(*e.first)}, {"legacy", e.second.toJson()}, {"xml1x", ms::xml1x(*e.first, e.second)}, {"xml20", ms::xml20(*e.first, 0)}}; }};
}

// ------------------------------------------------------------------ family order-*: child order wherever CellML 1.x leaves it open
// Each order dimension is enumerated over its coupled choices with everything else canonical (the legacy-* families are the product of
// the spelling choices in canonical order): (A) position of the relationship_ref(s) inside the encapsulation group x the four group
// forms x both relationship_ref orders; (B) every order of the model's child blocks [RDF, imports, units, components, groups,
// connections] x with/without a containment group x with/without 1.x-only constructs; (C) every order of the component child kinds
// [RDF, units, variables, reaction, math] x units inside the component; (D) map_components first / between / last; (E) import
// children and import elements reversed x model block orders.  Quick takes identity, reverse and all rotations of a permutation
// dimension, thorough every permutation.
std::vector<uint64_t> permRanks(size_t n, bool all)
{
    std::vector<uint64_t> r;
    uint64_t f = ms::factorial(n);
    if (all || f <= 6) { for (uint64_t i = 0; i < f; ++i) r.push_back(i); return r; }
    std::set<uint64_t> pick;
    auto rankOf = [&](const std::vector<int> &p) { for (uint64_t i = 0; i < f; ++i) if (ms::unrankPerm(i, int(n)) == p) return i; return uint64_t(0); };
    std::vector<int> id;
    for (size_t i = 0; i < n; ++i) id.push_back(int(i));
    for (size_t k = 0; k < n; ++k) { auto p = id; std::rotate(p.begin(), p.begin() + long(k), p.end()); pick.insert(rankOf(p)); }
    auto rev = id; std::reverse(rev.begin(), rev.end()); pick.insert(rankOf(rev));
    return {pick.begin(), pick.end()};
}
std::vector<ms::Legacy> orderVariants(const ms::Spec &s, bool thorough)
{
    std::vector<ms::Legacy> out;
    for (int ns = ms::hasImports(s) ? 1 : 0; ns < 2; ++ns) {
        ms::Legacy base; base.ns = ns;
        bool home = false;
        for (size_t i = 0; i < s.units.size(); ++i) if (ms::unitsHome(s, i) >= 0) home = true;
        if (ms::hasHierarchy(s)) { // (A)
            for (int group = 0; group < 4; ++group) for (int relSwap = 0; relSwap < (group == 3 ? 2 : 1); ++relSwap) {
                std::vector<int> pos = {0, 1};
                if (ms::encapsulationTrees(s) >= 2) pos.push_back(2);
                if (group == 3) { pos.push_back(3); pos.push_back(4); }
                for (int p : pos) {
                    if (group == 3 && relSwap && p >= 3) continue; // the split positions name both places already
                    ms::Legacy l = base; l.group = group; l.relSwap = relSwap; l.relPos = p; out.push_back(l);
                }
            }
        }
        for (int dropped = 0; dropped < 2; ++dropped) for (int group = 0; group < (ms::hasHierarchy(s) ? 2 : 1); ++group) { // (B)
            ms::Legacy l = base; l.dropped = dropped; l.group = group;
            for (auto r : permRanks(ms::modelBlocks(s, l).size(), thorough)) { if (!r && !dropped && !group) continue; l.modelOrder = int(r); out.push_back(l); }
        }
        for (int dropped = 0; dropped < 2; ++dropped) for (int place = 0; place < (home ? 2 : 1); ++place) { // (C)
            ms::Legacy l = base; l.dropped = dropped; l.unitsPlace = place;
            for (auto r : permRanks(ms::componentKinds(s, l).size(), thorough)) { if (!r) continue; l.compOrder = int(r); out.push_back(l); }
        }
        if (!s.conns.empty()) for (int relPos = 0; relPos < (ms::hasHierarchy(s) ? 2 : 1); ++relPos) { // (D)
            ms::Legacy l = base; l.mapcomp = 2; l.relPos = relPos; out.push_back(l);
        }
        if (ms::hasImports(s)) { // (E)
            ms::Legacy l = base; l.importOrder = 1;
            for (auto r : permRanks(ms::modelBlocks(s, l).size(), thorough)) { l.modelOrder = int(r); out.push_back(l); }
        }
    }
    return out;
}
// two feature-rich specs: two encapsulation trees, two map_variables in one connection, units used by one component only, math,
// ids everywhere; the second also imports units and a component through one shared <import>
std::vector<ms::Spec> richSpecs()
{
    ms::Spec s;
    s.family = "rich";
    s.id = "i_m"; s.eid = "i_enc";
    ms::UnitsDef ua; ua.name = "ua"; ua.id = "i_ua"; ua.kids.push_back({"second", "milli", 1.0, 1.0, "i_unit"});
    s.units.push_back(ua);
    auto var = [](const char *n, const char *u, const std::string &id) { ms::Var v; v.name = n; v.units = u; v.id = id; return v; };
    ms::Comp ca; ca.name = "ca"; ca.id = "i_ca"; ca.eid = "e_ca"; ca.vars = {var("x", "second", "i_ax"), var("y", "second", "i_ay")};
    ca.math = {ms::MathBlock{{ms::Eq{"x", "1.5", "second"}}}};
    ms::Comp cb; cb.name = "cb"; cb.parent = 0; cb.eid = "e_cb"; cb.vars = {var("x", "second", ""), var("y", "second", "")};
    ms::Comp cc; cc.name = "cc"; cc.id = "i_cc"; cc.eid = "e_cc"; cc.vars = {var("x", "second", ""), var("z", "ua", "i_cz")};
    ms::Comp cd; cd.name = "cd"; cd.parent = 2; cd.eid = "e_cd"; cd.vars = {var("x", "second", "i_dx")};
    s.comps = {ca, cb, cc, cd};
    s.conns = {{0, 0, 1, 0, "i_m1"}, {0, 1, 1, 1, "i_m2"}, {2, 0, 3, 0, ""}, {0, 0, 2, 0, "i_m3"}};
    s.cids[{0, 1}] = "i_c1"; s.cids[{0, 2}] = "i_c2";
    ms::computeInterfaces(s);
    ms::Spec t = s;
    ms::UnitsDef ui; ui.name = "ui"; ui.imp.on = true; ui.imp.href = "lib.cellml"; ui.imp.ref = "src_u"; ui.imp.src = 0;
    t.units.push_back(ui);
    ms::Comp ci; ci.name = "ci"; ci.imp.on = true; ci.imp.href = "lib.cellml"; ci.imp.ref = "src_c"; ci.imp.src = 0;
    ms::Comp cj; cj.name = "cj"; cj.id = "i_cj"; cj.imp.on = true; cj.imp.href = "lib2.cellml"; cj.imp.ref = "src_j"; cj.imp.iid = "i_imp2";
    t.comps.push_back(ci); t.comps.push_back(cj);
    return {s, t};
}
struct OrderSpace
{
    std::vector<ms::Spec> specs;
    std::vector<std::vector<ms::Legacy>> variants;
    std::vector<uint64_t> start;
    uint64_t total = 0;
    void add(ms::Spec s, bool thorough)
    {
        auto v = orderVariants(s, thorough);
        if (v.empty()) return;
        start.push_back(total);
        total += v.size();
        specs.push_back(std::move(s));
        variants.push_back(std::move(v));
    }
};
std::shared_ptr<OrderSpace> makeOrderSpace(bool thorough)
{
    auto sp = std::make_shared<OrderSpace>();
    for (auto &s : richSpecs()) sp->add(s, thorough);
    ms::HParams h;
    h.kmax = 3; h.smax = 1; h.perms = false; h.flips = false; h.nameOrders = false; h.twoVars = thorough;
    h.idpats = {3};
    auto fh = ms::familyH("h", h);
    for (uint64_t i = 0; i < fh.count(); ++i) sp->add(fh.at(i), thorough);
    auto fv = ms::familyV("v");
    for (uint64_t i = 0; i < fv.count(); i += thorough ? 1 : 7) sp->add(fv.at(i), thorough);
    auto fi = ms::familyI("i-q", false);
    for (uint64_t i = 0; i < fi.count(); i += thorough ? 1 : 3) sp->add(fi.at(i), thorough);
    auto fm = ms::familyM("m");
    for (uint64_t i = 0; i < fm.count(); ++i) sp->add(fm.at(i), thorough);
    return sp;
}
Family orderFamily(const std::string &name, bool thorough)
{
    auto cell = std::make_shared<std::shared_ptr<OrderSpace>>();
    auto get = [cell, thorough]() -> const OrderSpace & { if (!*cell) *cell = makeOrderSpace(thorough); return **cell; };
    auto at = [get](uint64_t i) {
        const OrderSpace &o = get();
        size_t k = size_t(std::upper_bound(o.start.begin(), o.start.end(), i) - o.start.begin()) - 1;
        return std::pair<const ms::Spec *, ms::Legacy>{&o.specs[k], o.variants[k][size_t(i - o.start[k])]};
    };
    return {name, [get] { return get().total; },
            [at](uint64_t i, Ctx &c) {
                auto e = at(i);
                json what = {{"family", e.first->family}, {"legacy", e.second.toJson()}};
                if (c.verbose) what["spec"] = ms::toJson(*e.first);
                judgePair(c, ms::xml1x(*e.first, e.second), ms::xml20(*e.first, 0), e.second.ns ? "1.1" : "1.0", e.first->valid, "c14:order:" + e.first->family.substr(0, 1), "", what);
            },
            [at](uint64_t i) { auto e = at(i); return json{{"spec", ms::toJson(*e.first)}, {"legacy", e.second.toJson()}, {"xml1x", ms::xml1x(*e.first, e.second)}, {"xml20", ms::xml20(*e.first, 0)}}; }};
}

// ------------------------------------------------------------------ family extras: one legacy construct at a time on a fixed document
struct Probe
{
    const char *name;
    const char *slot;   // placeholder replaced ...
    std::string text;   // ... by this
    const char *slot20; // optional change of the expected 2.0 document
    std::string text20;
};
std::string fill(std::string doc, const std::string &slot, const std::string &text)
{
    // every {SLOT} other than the chosen one becomes empty
    std::string out;
    for (size_t p = 0; p < doc.size();) {
        if (doc[p] == '{') {
            size_t e = doc.find('}', p);
            std::string name = doc.substr(p + 1, e - p - 1);
            if (name == slot) out += text;
            p = e + 1;
        } else out += doc[p++];
    }
    return out;
}
const std::string RDF = std::string("<rdf:RDF xmlns:rdf=\"") + ms::NSRDF + "\"><rdf:Description rdf:about=\"#i_m\"/></rdf:RDF>";
std::string base1x(const char *ns, bool withImport)
{
    std::string d = "<?xml version=\"1.0\" encoding=\"UTF-8\"?>\n<{P}model xmlns{PD}=\"" + std::string(ns) + "\" xmlns:cmeta=\"" + ms::NSCMETA + "\" xmlns:cellml=\"" + ns + "\" name=\"m\" cmeta:id=\"i_m\">\n";
    if (withImport) d += std::string("  <{P}import xmlns:xlink=\"") + ms::NSXLINK + "\" xlink:href=\"lib.cellml\" cmeta:id=\"i_imp\">{RDF_IMPORT}<{P}component component_ref=\"src\" name=\"ci\">{RDF_ICOMP}</{P}component></{P}import>\n";
    d += "  <{P}units name=\"ua\" cmeta:id=\"i_ua\">{RDF_UNITS}<{P}unit units=\"second\" prefix=\"milli\"{OFFSET}>{RDF_UNIT}</{P}unit></{P}units>\n"
         "  <{P}component name=\"ca\" cmeta:id=\"i_ca\">\n    <{P}variable name=\"x\" units=\"ua\" private_interface=\"out\"/>\n    <{P}variable name=\"y\" units=\"{VARUNITS|metre}\"/>\n{MATH}  </{P}component>\n"
         "  <{P}component name=\"cb\">\n    <{P}variable name=\"x\" units=\"ua\" public_interface=\"in\"/>\n  </{P}component>\n"
         "  <{P}group{GROUPID}>{RDF_GROUP}<{P}relationship_ref relationship=\"encapsulation\">{RDF_RELREF}</{P}relationship_ref><{P}component_ref component=\"ca\">{RDF_CREF}<{P}component_ref component=\"cb\"/></{P}component_ref></{P}group>\n"
         "  <{P}connection{CONNID}>{RDF_CONN}<{P}map_components component_1=\"ca\" component_2=\"cb\">{RDF_MAPC}</{P}map_components><{P}map_variables variable_1=\"x\" variable_2=\"x\">{RDF_MAPV}</{P}map_variables></{P}connection>\n"
         "</{P}model>\n";
    return d;
}
std::string base20(bool withImport)
{
    std::string d = "<?xml version=\"1.0\" encoding=\"UTF-8\"?>\n<model xmlns=\"" + std::string(ms::NS20) + "\" xmlns:cellml=\"" + ms::NS20 + "\" name=\"m\" id=\"i_m\">\n";
    if (withImport) d += std::string("  <import xmlns:xlink=\"") + ms::NSXLINK + "\" xlink:href=\"lib.cellml\" id=\"i_imp\"><component component_ref=\"src\" name=\"ci\"/></import>\n";
    d += "  <units name=\"ua\" id=\"i_ua\"><unit units=\"second\" prefix=\"milli\"/></units>\n"
         "  <component name=\"ca\" id=\"i_ca\">\n    <variable name=\"x\" units=\"ua\" interface=\"private\"/>\n    <variable name=\"y\" units=\"metre\"/>\n{MATH}  </component>\n"
         "  <component name=\"cb\">\n    <variable name=\"x\" units=\"ua\" interface=\"public\"/>\n  </component>\n"
         "  <connection component_1=\"ca\" component_2=\"cb\"{CONNID}><map_variables variable_1=\"x\" variable_2=\"x\"/></connection>\n"
         "  <encapsulation{GROUPID}><component_ref component=\"ca\"><component_ref component=\"cb\"/></component_ref></encapsulation>\n"
         "</model>\n";
    return d;
}
std::string mathBlock(const std::string &prefix, const std::string &decl, const std::string &units)
{
    return "    <math xmlns=\"" + std::string(ms::NSM) + "\"" + decl + "><apply><eq/><ci>y</ci><cn " + prefix + ":units=\"" + units + "\">1.5</cn></apply></math>\n";
}
std::vector<Probe> probes(const char *ns)
{
    std::string ownPrefix = std::string(" xmlns:c1x=\"") + ns + "\"";
    return {
        {"baseline", "", "", "", ""},
        {"rdf-in-import", "RDF_IMPORT", RDF, "", ""},
        {"rdf-in-imported-component", "RDF_ICOMP", RDF, "", ""},
        {"rdf-in-units", "RDF_UNITS", RDF, "", ""},
        {"rdf-in-unit", "RDF_UNIT", RDF, "", ""},
        {"rdf-in-group", "RDF_GROUP", RDF, "", ""},
        {"rdf-in-relationship_ref", "RDF_RELREF", RDF, "", ""},
        {"rdf-in-component_ref", "RDF_CREF", RDF, "", ""},
        {"rdf-in-connection", "RDF_CONN", RDF, "", ""},
        {"rdf-in-map_components", "RDF_MAPC", RDF, "", ""},
        {"rdf-in-map_variables", "RDF_MAPV", RDF, "", ""},
        {"unit-offset-zero", "OFFSET", " offset=\"0.0\"", "", ""},
        // ids on the two 1.x elements whose 2.0 counterpart carries an id: observed, see the assumptions of the check
        {"group-cmeta-id", "GROUPID", " cmeta:id=\"i_enc\"", "GROUPID", " id=\"i_enc\""},
        {"connection-cmeta-id", "CONNID", " cmeta:id=\"i_conn\"", "CONNID", " id=\"i_conn\""},
        {"variable-units-meter", "VARUNITS", "meter", "", ""},
        {"math-cn-units-metre", "MATH", mathBlock("cellml", "", "metre"), "MATH", mathBlock("cellml", "", "metre")},
        {"math-cn-units-meter", "MATH", mathBlock("cellml", "", "meter"), "MATH", mathBlock("cellml", "", "metre")},
        {"math-cn-units-other-prefix", "MATH", mathBlock("c1x", ownPrefix, "metre"), "MATH", mathBlock("cellml", "", "metre")},
        {"prefixed-elements", "P", "c:", "", ""},
    };
}
Family extrasFamily()
{
    auto build = [](uint64_t i, std::string &d1, std::string &d20, std::string &name, const char *&version) {
        int nsI = int(i % 2);
        const char *ns = nsI ? ms::NS11 : ms::NS10;
        version = nsI ? "1.1" : "1.0";
        auto ps = probes(ns);
        const Probe &p = ps[size_t(i / 2)];
        name = p.name;
        std::string b1 = base1x(ns, nsI == 1);
        // {VARUNITS|metre}: a slot with a default
        std::string def = "{VARUNITS|metre}";
        size_t at = b1.find(def);
        b1.replace(at, def.size(), std::string(p.slot) == "VARUNITS" ? p.text : "metre");
        bool prefixed = std::string(p.slot) == "P";
        // the prefix declaration: xmlns="ns" for unprefixed elements, xmlns:c="ns" when every element carries the prefix c
        std::string tmp;
        for (size_t q0 = 0; q0 < b1.size();) {
            if (b1.compare(q0, 4, "{PD}") == 0) { tmp += prefixed ? ":c" : ""; q0 += 4; }
            else if (b1.compare(q0, 3, "{P}") == 0) { tmp += prefixed ? "c:" : ""; q0 += 3; }
            else tmp += b1[q0++];
        }
        d1 = fill(tmp, prefixed ? "" : p.slot, p.text);
        d20 = fill(base20(nsI == 1), p.slot20, p.text20);
    };
    return {"extras", [] { return uint64_t(probes(ms::NS10).size() * 2); },
            [build](uint64_t i, Ctx &c) {
                std::string d1, d20, name;
                const char *version;
                build(i, d1, d20, name, version);
                judgePair(c, d1, d20, version, true, "c14:extras:" + name, "", json{{"probe", name}, {"version", version}});
            },
            [build](uint64_t i) {
                std::string d1, d20, name;
                const char *version;
                build(i, d1, d20, name, version);
                return json{{"probe", name}, {"version", version}, {"xml1x", d1}, {"xml20", d20}};
            }};
}

} // namespace

int main(int argc, char **argv)
{
    std::vector<Family> fams = {legacyFamily("legacy-q", false), legacyFamily("legacy-t", true), orderFamily("order-q", false), orderFamily("order-t", true), extrasFamily()};
    return harnessMain(argc, argv, fams);
}
